(* Proofs/CloseSMP.v — closed for good; the handshake carries code and reason; nothing refused is sent. *)
From Coq Require Import List NArith Lia ZArith ZifyN ZifyNat ZifyBool Bool.
From WS Require Import Base.Words Gen.Consts Gen.CloseCode Model.CloseCodec Model.CloseSM Proofs.CloseCodecP.
Import ListNotations.

Lemma step_closed_stays pe s op : cs_closed s = true -> cs_closed (fst (csm_step pe s op)) = true.
Proof. intro H. destruct op; cbn [csm_step]; rewrite ?H; cbn [fst]; auto.
  - destruct (cs_closing s); cbn [fst cs_closed]; auto.
  - destruct (cs_closing s); cbn [fst cs_closed]; auto. Qed.

Lemma step_rw pe s op : match op with AWrite | AWriter | ARead | APing => fst (csm_step pe s op) = s | _ => True end.
Proof. destruct op; cbn [csm_step]; auto; destruct (cs_closed s); auto; destruct (cs_close_sent s); auto. Qed.

Lemma step_closing_stays pe s op : cs_closing s = true -> cs_closing (fst (csm_step pe s op)) = true.
Proof. intro H. destruct op; cbn [csm_step]; rewrite ?H; cbn [fst]; auto.
  - destruct (cs_closed s); cbn [fst]; auto.
  - destruct (cs_closed s); cbn [fst]; auto; destruct (cs_close_sent s); auto.
  - destruct (cs_closed s); cbn [fst]; auto; destruct (cs_close_sent s); auto.
  - destruct (cs_closed s); cbn [fst]; auto.
  - destruct (cs_closed s); [cbn [fst]; auto|]. destruct (parse_close payload) as [[c r]|]; cbn [fst cs_closing]; auto. Qed.

(* The precise statement: after Close or CloseNow has RETURNED (closing = true), every later call fails and
   Close / CloseNow fail with net.ErrClosed *)
Theorem after_close_returned : forall pe ops s, cs_closed s = true -> cs_closing s = true ->
  Forall (fun r => is_err r = true) (snd (csm_run pe s ops)) /\
  forall i op, nth_error ops i = Some op -> (match op with AClose _ _ | ACloseNow => True | _ => False end) ->
               nth_error (snd (csm_run pe s ops)) i = Some CErrClosed.
Proof. induction ops as [|op ops IH]; intros s Hc Hg; cbn [csm_run].
  - split; [constructor|]. intros [|i] op H; discriminate.
  - destruct (csm_step pe s op) as [s1 o] eqn:E. destruct (csm_run pe s1 ops) as [s2 os] eqn:E2. cbn [snd].
    assert (Hc1 : cs_closed s1 = true) by (pose proof (step_closed_stays pe s op Hc) as X; rewrite E in X; exact X).
    assert (Hg1 : cs_closing s1 = true) by (pose proof (step_closing_stays pe s op Hg) as X; rewrite E in X; exact X).
    destruct (IH s1 Hc1 Hg1) as (IH1 & IH2). rewrite E2 in IH1, IH2. cbn [snd] in IH1, IH2.
    assert (Ho : is_err o = true /\ (match op with AClose _ _ | ACloseNow => True | _ => False end -> o = CErrClosed)).
    { destruct op; cbn [csm_step] in E; rewrite ?Hc, ?Hg in E; inversion E; subst; split; auto; intros []. }
    destruct Ho as (Ho1 & Ho2). split.
    + constructor; auto.
    + intros [|i] op' H Hk; cbn [nth_error] in *.
      * inversion H; subst. rewrite Ho2; auto.
      * eapply IH2; eauto.
Qed.

(* once closed (by whatever: peer close, failure, local close) reads, writes and pings fail *)
Theorem closed_ops_fail : forall pe s op, cs_closed s = true ->
  (match op with ARead | AWrite | AWriter | APing | APeerClose _ => True | _ => False end) ->
  is_err (snd (csm_step pe s op)) = true /\ fst (csm_step pe s op) = s.
Proof. intros pe s op H Hk. destruct op; try contradiction; cbn [csm_step]; rewrite H; split; reflexivity. Qed.

(* Close with a sendable code and reason on an open connection writes exactly one Close frame with exactly that
   payload and returns nil when the peer echoes it *)
Theorem close_handshake : forall s code reason, cs_closing s = false -> cs_closed s = false -> cs_close_sent s = false ->
  valid_wire_code code = true -> (length reason <= 123)%nat -> wf_bytes reason ->
  csm_step true s (AClose code reason) =
    ({| cs_closed := true; cs_closing := true; cs_close_sent := true; cs_wire := cs_wire s ++ [be_bytes 2 (Z.to_N code) ++ reason] |}, CNil).
Proof. intros s code reason Hg Hc Hs Hv Hl Hw. cbn [csm_step]. rewrite Hg, Hc.
  destruct (close_codec_roundtrip code reason Hv Hl Hw) as (p & Hp & E & _).
  unfold close_payload. assert (N5 : (code =? c_StatusNoStatusRcvd)%Z = false).
  { apply Z.eqb_neq. intro X. subst. discriminate. }
  rewrite N5, Hp, Hs, E. reflexivity. Qed.

(* a code that may not appear on the wire, or an oversize reason, is never sent: Close errors and nothing is written *)
Theorem close_refused : forall pe s code reason, cs_closing s = false -> cs_closed s = false ->
  ((valid_wire_code code = false \/ (123 < length reason)%nat) /\ code <> c_StatusNoStatusRcvd) ->
  snd (csm_step pe s (AClose code reason)) = CErr /\ cs_wire (fst (csm_step pe s (AClose code reason))) = cs_wire s.
Proof. intros pe s code reason Hg Hc (H & Hn). cbn [csm_step]. rewrite Hg, Hc.
  rewrite close_never_sent; [split; reflexivity|]. destruct H as [H|H]; [left|right]; auto. Qed.

(* 1005 sends a Close frame with an empty payload *)
Theorem close_1005 : forall s reason, cs_closing s = false -> cs_closed s = false -> cs_close_sent s = false ->
  cs_wire (fst (csm_step true s (AClose c_StatusNoStatusRcvd reason))) = cs_wire s ++ [[]].
Proof. intros s reason Hg Hc Hs. cbn [csm_step]. rewrite Hg, Hc. rewrite close_1005_empty, Hs. reflexivity. Qed.

(* a received Close frame is echoed with the same code and reason and reported the same way *)
Theorem peer_close_echo : forall pe s code reason, cs_closed s = false -> cs_close_sent s = false ->
  valid_wire_code code = true -> (length reason <= 123)%nat -> wf_bytes reason ->
  let p := be_bytes 2 (Z.to_N code) ++ reason in
  snd (csm_step pe s (APeerClose p)) = CErrCloseFrame code reason /\
  cs_wire (fst (csm_step pe s (APeerClose p))) = cs_wire s ++ [p] /\ cs_closed (fst (csm_step pe s (APeerClose p))) = true.
Proof. intros pe s code reason Hc Hs Hv Hl Hw p. cbn [csm_step]. rewrite Hc.
  destruct (close_codec_roundtrip code reason Hv Hl Hw) as (p' & Hp & E & Hparse). fold p in E. subst p'.
  rewrite Hparse. unfold close_payload. assert (N5 : (code =? c_StatusNoStatusRcvd)%Z = false).
  { apply Z.eqb_neq. intro X. subst. discriminate. }
  rewrite N5, Hp, Hs. cbn. auto. Qed.
