(* Proofs/ReaderCutP.v — stream-level theorems about the Reader model beyond the all-valid, no-limit case of ReaderRefP:
   (2) a read limit set before the first message: messages within the limit are delivered exactly as without one; the first
       message exceeding it fails with the limit error after exactly limit+1 bytes and a Close 1009 is written;
   (1) a transport that delivers only a proper prefix of a valid stream: the complete messages are delivered intact and
       then exactly one call fails with the transport's error — never a clean end for the truncated message. *)
From Coq Require Import List NArith Lia ZArith ZifyN ZifyNat ZifyBool Bool.
From WS Require Import Base.Words Gen.Consts Gen.CloseCode Model.Mask Model.Frame Model.Proto Model.CloseCodec Model.RefDecoder
  Model.Reader Model.Script Proofs.MaskP Proofs.FrameP Proofs.ReaderRefP.
Import ListNotations.
Open Scope N_scope.
Ltac Zify.zify_post_hook ::= Z.div_mod_to_equations.

Definition end_err_of (e : ending) : rerr := match e with EOpen => REBlocked | EEof => RETransEof | EFail => RETransFail end.
Definition is_prefix (a b : bytes) : Prop := exists c, b = a ++ c.

(* ---------- field-level invariant: open, uncompressed, no Close written, limit [lim] stored, transport ends with [e] ---------- *)
Definition inv (lim : Z) (e : ending) (s : rst) : Prop :=
  r_closed s = false /\ r_flate s = false /\ r_limit s = lim /\ r_close_sent s = false /\ r_end s = e.

(* fields that header/control processing leaves alone *)
Definition keep (s s' : rst) : Prop := r_fin s' = r_fin s /\ r_plen s' = r_plen s /\ r_key s' = r_key s /\ r_lrn s' = r_lrn s.

Lemma sub_lrn_lrn s k : r_lrn (sub_lrn s k) = if (r_lrn s <? 0)%Z then r_lrn s else (r_lrn s - Z.of_nat k)%Z.
Proof. reflexivity. Qed.

Lemma write_error_replies s code : r_close_sent s = false -> r_replies (write_error s code) = r_replies s ++ [RpClose code None].
Proof. intro H. unfold write_error, add_reply. cbn [andb]. rewrite H. reflexivity. Qed.

Lemma firstn_app_ge {A} (a b : list A) c : (length a <= c)%nat -> firstn c (a ++ b) = a ++ firstn (c - length a) b.
Proof. intro H. rewrite firstn_app. rewrite firstn_all2 by exact H. reflexivity. Qed.
Lemma firstn_app_lt {A} (a b : list A) c : (c <= length a)%nat -> firstn c (a ++ b) = firstn c a.
Proof. intro H. rewrite firstn_app. replace (c - length a)%nat with 0%nat by lia. cbn [firstn]. apply app_nil_r. Qed.

Lemma wire_firstn m k b c : firstn c (wire m k b) = wire m k (firstn c b).
Proof.
  destruct (Nat.le_gt_cases c (length b)) as [Hle|Hgt].
  - rewrite <- (firstn_skipn c b) at 1. rewrite wire_app.
    rewrite firstn_app_lt by (rewrite wire_length, firstn_length; lia).
    apply firstn_all2. rewrite wire_length, firstn_length. lia.
  - rewrite !firstn_all2; [reflexivity | lia | rewrite wire_length; lia].
Qed.

Section Gen.
Variable cfg : rcfg.
Variable inflate : bytes -> bytes -> bytes * istatus.
Variable lim : Z.
Variable e : ending.
Notation M := (is_server cfg).
Notation Inv := (inv lim e).

Definition ctl_hdr (c : ctl) : hdr := mk_hdr M true (c_opc c) (c_key c) (length (c_payload c)).

Lemma ctl_hdr_wf c : wf_ctl c -> wf_hdr (ctl_hdr c).
Proof. intros (Hopc & Hpw & Hpl & Hck). apply mk_hdr_wf; [destruct Hopc as [E|E]; rewrite E; lia | lia | exact Hck]. Qed.

Lemma end_err_inv s : Inv s -> end_err s = end_err_of e.
Proof. intros (_ & _ & _ & _ & He). unfold end_err. rewrite He. reflexivity. Qed.

(* ---------- one iteration of readLoop ---------- *)
Lemma read_loop_ctl_unfold f s c rest0 : wf_ctl c -> r_closed s = false -> r_inq s = enc_hdr (ctl_hdr c) ++ rest0 ->
  read_loop cfg (S f) s = match handle_control (set_inq s rest0) (ctl_hdr c) with Ok _ s2 => read_loop cfg f s2 | Err er s2 => Err er s2 end.
Proof.
  intros Hw Hc Hi. pose proof (ctl_hdr_wf c Hw) as Hwf. destruct Hw as (Hopc & _).
  cbn [read_loop]. unfold read_hdr. rewrite Hc, Hi, dec_enc by exact Hwf.
  assert (Hctl : ((c_opc c =? 8) || (c_opc c =? 9) || (c_opc c =? 10)) = true).
  { destruct Hopc as [-> | ->]; reflexivity. }
  unfold ctl_hdr. cbn [h_rsv1 h_rsv2 h_rsv3 h_masked h_opc mk_hdr andb orb].
  destruct M; cbn [negb andb orb]; rewrite Hctl; reflexivity.
Qed.

Lemma read_loop_data f s fin opc k n tl : (opc = 0 \/ opc = 1 \/ opc = 2) -> N.of_nat n < 9223372036854775808 -> wf_key k ->
  r_closed s = false -> r_inq s = enc_hdr (mk_hdr M fin opc k n) ++ tl ->
  read_loop cfg (S f) s = Ok (mk_hdr M fin opc k n) (set_inq s tl).
Proof.
  intros Ho Hn Hk Hc Hi. cbn [read_loop]. unfold read_hdr. rewrite Hc, Hi.
  rewrite dec_enc by (apply mk_hdr_wf; auto; lia).
  cbn [h_rsv1 h_rsv2 h_rsv3 h_masked h_opc mk_hdr andb orb].
  destruct M; cbn [negb andb orb]; destruct Ho as [-> | [-> | ->]]; reflexivity.
Qed.

Lemma handle_control_ok s c tl : wf_ctl c -> Inv s -> r_inq s = wire M (c_key c) (c_payload c) ++ tl ->
  exists s2, handle_control s (ctl_hdr c) = Ok tt s2 /\ r_inq s2 = tl /\ Inv s2 /\ keep s s2 /\
    r_replies s2 = r_replies s ++ pw [c] /\ r_pongs s2 = r_pongs s ++ pn [c].
Proof.
  intros (Hopc & Hpw & Hpl & Hck) (Hc & Hfl & Hlim & Hcs & He) Hi.
  unfold handle_control, ctl_hdr. cbn [h_plen h_fin h_masked h_key h_opc mk_hdr negb].
  destruct (N.ltb_spec 125 (N.of_nat (length (c_payload c)))) as [Hbad|_]; [lia|].
  rewrite Nat2N.id. rewrite <- (wire_length M (c_key c) (c_payload c)).
  rewrite (read_payload_app _ (wire M (c_key c) (c_payload c)) tl Hc Hi).
  assert (EP : (if M then mask_spec (if M then c_key c else zero_key) (wire M (c_key c) (c_payload c)) else wire M (c_key c) (c_payload c)) = c_payload c).
  { destruct M; cbn [wire]; [apply mask_involution | reflexivity]. }
  rewrite EP. cbn [pw pn flat_map]. rewrite !app_nil_r.
  destruct Hopc as [E9 | E10]; rewrite E9 || rewrite E10.
  - change (9 =? 9) with true. change (9 =? 10) with false. cbv iota.
    eexists. split; [reflexivity|]. rewrite add_pong_reply. unfold inv, keep. rsimp. rewrite Hcs, app_nil_r. cbn [orb]. auto 10.
  - change (10 =? 9) with false. change (10 =? 10) with true. cbv iota.
    eexists. split; [reflexivity|]. unfold inv, keep. rsimp. rewrite app_nil_r. auto 10.
Qed.

(* ---------- L1: readLoop handles the control frames and returns the data header ---------- *)
Lemma read_loop_ctlsG : forall cs fuel s fin opc k n tl,
  Forall wf_ctl cs -> (opc = 0 \/ opc = 1 \/ opc = 2) -> N.of_nat n < 9223372036854775808 -> wf_key k ->
  Inv s ->
  r_inq s = concat (map (enc_ctl M) cs) ++ enc_hdr (mk_hdr M fin opc k n) ++ tl ->
  (length (r_inq s) < fuel)%nat ->
  exists s', read_loop cfg fuel s = Ok (mk_hdr M fin opc k n) s' /\
    r_inq s' = tl /\ Inv s' /\ keep s s' /\
    r_replies s' = r_replies s ++ pw cs /\ r_pongs s' = r_pongs s ++ pn cs.
Proof.
  induction cs as [|c cs IH]; intros fuel s fin opc k n tl Hcs Ho Hn Hk Hq Hi Hfu.
  - destruct fuel as [|fuel]; [lia|]. cbn [map concat app] in Hi.
    pose proof Hq as (Hc & Hfl & Hlim & Hsent & He).
    rewrite (read_loop_data fuel s fin opc k n tl Ho Hn Hk Hc Hi).
    exists (set_inq s tl). split; [reflexivity|].
    unfold inv, keep. rsimp. cbn [pw pn flat_map]. rewrite !app_nil_r. auto 10.
  - destruct fuel as [|fuel]; [lia|].
    inversion Hcs as [|c0 cs0 Hc0 Hcs']. subst c0 cs0.
    cbn [map concat] in Hi. unfold enc_ctl at 1 in Hi. rewrite enc_frame_mk in Hi. rewrite <- !app_assoc in Hi.
    fold (ctl_hdr c) in Hi.
    pose proof Hq as (Hc & Hfl & Hlim & Hsent & He).
    set (rest := concat (map (enc_ctl M) cs) ++ enc_hdr (mk_hdr M fin opc k n) ++ tl) in *.
    rewrite (read_loop_ctl_unfold fuel s c _ Hc0 Hc Hi).
    destruct (handle_control_ok (set_inq s (wire M (c_key c) (c_payload c) ++ rest)) c rest Hc0) as (s2 & HC & I2 & Q2 & (F2 & P2 & K2 & L2) & R2 & G2).
    { unfold inv. rsimp. auto 10. }
    { reflexivity. }
    rewrite HC. rsimp_in F2. rsimp_in P2. rsimp_in K2. rsimp_in L2. rsimp_in R2. rsimp_in G2.
    destruct (IH fuel s2 fin opc k n tl Hcs' Ho Hn Hk Q2) as (s' & RL & I' & Q' & (F' & P' & K' & L') & R' & G').
    { rewrite I2. reflexivity. }
    { rewrite I2. rewrite Hi in Hfu. rewrite !app_length in Hfu. pose proof (enc_hdr_len2 (ctl_hdr c)). lia. }
    exists s'. split; [exact RL|]. split; [exact I'|]. split; [exact Q'|].
    split; [unfold keep; split; [congruence|]; split; [congruence|]; split; congruence|].
    split.
    + rewrite R', R2. change (c :: cs) with ([c] ++ cs). rewrite pw_app, app_assoc. reflexivity.
    + rewrite G', G2. change (c :: cs) with ([c] ++ cs). rewrite pn_app, app_assoc. reflexivity.
Qed.

(* ---------- state descriptor ---------- *)
Definition at_posG (s : rst) (b : bytes) (fs : list frag) (tl : bytes) : Prop :=
  r_inq s = wire M (r_key s) b ++ enc_rest M fs ++ tl /\ r_plen s = N.of_nat (length b) /\ r_fin s = is_nil fs /\
  Forall wf_frag fs /\ Inv s.

Definition finalG (s' : rst) (tl : bytes) (rp : list reply) (pg : list bytes) : Prop :=
  r_inq s' = tl /\ r_fin s' = true /\ Inv s' /\ r_replies s' = rp /\ r_pongs s' = pg.

Lemma at_posG_sub_lrn s b fs tl k : at_posG s b fs tl -> at_posG (sub_lrn s k) b fs tl.
Proof. intro H. exact H. Qed.

Lemma finalG_sub_lrn s tl rp pg k : finalG s tl rp pg -> finalG (sub_lrn s k) tl rp pg.
Proof. intro H. exact H. Qed.

(* ---------- one msgReader.read call ---------- *)
Definition stepR_data (res : bytes * option rerr * bool * rst) (s : rst) (b : bytes) (fs : list frag) (tl : bytes) (n : nat) : Prop :=
  exists d b' fs' s', res = (d, None, false, s') /\ d <> [] /\ (length d <= n)%nat /\
       d ++ b' ++ bodies fs' = b ++ bodies fs /\ at_posG s' b' fs' tl /\ r_lrn s' = r_lrn s /\
       r_replies s' ++ pw (ctls fs') = r_replies s ++ pw (ctls fs) /\
       r_pongs s' ++ pn (ctls fs') = r_pongs s ++ pn (ctls fs) /\
       (length (r_inq s') < length (r_inq s))%nat.
Definition stepR_eof (res : bytes * option rerr * bool * rst) (s : rst) (b : bytes) (fs : list frag) (tl : bytes) : Prop :=
  exists s', res = ([], None, true, s') /\ b = [] /\ bodies fs = [] /\ r_lrn s' = r_lrn s /\
       finalG s' tl (r_replies s ++ pw (ctls fs)) (r_pongs s ++ pn (ctls fs)).

Lemma raw_read_stepG : forall fuel s b fs tl n, (0 < n)%nat -> at_posG s b fs tl -> (length (r_inq s) < fuel)%nat ->
  stepR_data (raw_read cfg fuel n s) s b fs tl n \/ stepR_eof (raw_read cfg fuel n s) s b fs tl.
Proof.
  induction fuel as [|fuel IH]; intros s b fs tl n Hn (Hi & Hp & Hf & Hw & Hq) Hfu; [lia|].
  destruct b as [|x b0].
  - cbn [length] in Hp. cbn [raw_read]. destruct (N.eqb_spec (r_plen s) 0) as [_|Hne]; [|lia].
    rewrite wire_nil in Hi. cbn [app] in Hi.
    destruct fs as [|f r].
    + right. cbn [is_nil] in Hf. rewrite Hf. exists s. cbn [enc_rest app] in Hi.
      split; [reflexivity|]. split; [reflexivity|]. split; [reflexivity|]. split; [reflexivity|].
      unfold finalG, ctls. cbn [map concat pw pn flat_map]. rewrite !app_nil_r. auto 10.
    + cbn [is_nil] in Hf. rewrite Hf. cbn [negb].
      cbn [enc_rest] in Hi. unfold enc_frag in Hi. rewrite enc_frame_mk in Hi. rewrite <- !app_assoc in Hi.
      inversion Hw as [|f0 r0 Hwf Hwr]. subst f0 r0.
      destruct Hwf as (Hcs & Hbw & Hbl & Hkw).
      destruct (read_loop_ctlsG (fr_ctl f) (S fuel) s (is_nil r) 0 (fr_key f) (length (fr_body f))
                  (wire M (fr_key f) (fr_body f) ++ enc_rest M r ++ tl) Hcs (or_introl eq_refl) Hbl Hkw Hq Hi Hfu)
        as (s1 & RL & I1 & Q1 & (F1 & P1 & K1 & L1) & R1 & G1).
      rewrite RL. cbn [h_opc mk_hdr]. change (0 =? 0) with true. cbn [negb].
      set (h := mk_hdr M (is_nil r) 0 (fr_key f) (length (fr_body f))) in *.
      set (s2 := set_frame s1 h).
      assert (A2 : at_posG s2 (fr_body f) r tl).
      { unfold at_posG, inv, s2, h. rsimp. rewrite wire_key. destruct Q1 as (Q1a & Q1b & Q1c & Q1d & Q1e). auto 10. }
      assert (L0 : (length (r_inq s2) + 2 <= length (r_inq s))%nat).
      { unfold s2. rsimp. rewrite I1, Hi. rewrite !app_length. pose proof (enc_hdr_len2 h). lia. }
      assert (L2 : (length (r_inq s2) < fuel)%nat) by lia.
      assert (R2 : r_replies s2 = r_replies s ++ pw (fr_ctl f)) by (unfold s2; rsimp; exact R1).
      assert (G2 : r_pongs s2 = r_pongs s ++ pn (fr_ctl f)) by (unfold s2; rsimp; exact G1).
      assert (N2 : r_lrn s2 = r_lrn s) by (unfold s2; rsimp; exact L1).
      destruct (IH s2 (fr_body f) r tl n Hn A2 L2) as [(d & b' & fs' & s' & E & Hd & Hdn & Hc & Ha & Hlr & Hr & Hg & Hl)|(s' & E & Eb & Er & Hlr & Fi)].
      * left. exists d, b', fs', s'. split; [exact E|]. split; [exact Hd|]. split; [exact Hdn|].
        split; [unfold bodies at 2; cbn [map concat app]; exact Hc|]. split; [exact Ha|].
        split; [congruence|].
        split; [|split].
        -- rewrite Hr, R2. unfold ctls at 2. cbn [map concat]. rewrite pw_app, app_assoc. reflexivity.
        -- rewrite Hg, G2. unfold ctls at 2. cbn [map concat]. rewrite pn_app, app_assoc. reflexivity.
        -- lia.
      * right. exists s'. split; [exact E|]. split; [reflexivity|].
        split; [unfold bodies; cbn [map concat]; rewrite Eb; exact Er|]. split; [congruence|].
        rewrite R2, G2 in Fi. unfold ctls at 1 2. cbn [map concat]. rewrite pw_app, pn_app, !app_assoc. exact Fi.
  - left. set (bb := x :: b0) in *.
    assert (Hbl : (1 <= length bb)%nat) by (unfold bb; cbn [length]; lia).
    set (k := Nat.min n (length bb)).
    assert (Hk : (if N.of_nat n <? r_plen s then n else N.to_nat (r_plen s)) = k).
    { rewrite Hp. unfold k. destruct (N.ltb_spec (N.of_nat n) (N.of_nat (length bb))); lia. }
    set (b1 := firstn k bb). set (b2 := skipn k bb).
    assert (Hb : bb = b1 ++ b2) by (symmetry; apply firstn_skipn).
    assert (Hl1 : length b1 = k) by (unfold b1; rewrite firstn_length; unfold k; lia).
    assert (Hl2 : (length bb = k + length b2)%nat) by (rewrite Hb at 1; rewrite app_length; lia).
    destruct Hq as (Hc & Hfl & Hlim & Hsent & He).
    rewrite Hb, wire_app, <- app_assoc, Hl1 in Hi.
    set (key' := if M then rotk (r_key s) k else r_key s) in *.
    set (rest := wire M key' b2 ++ enc_rest M fs ++ tl) in *.
    assert (RR : raw_read cfg (S fuel) n s = (b1, None, false, sub_plen (set_inq s rest) k key')).
    { cbn [raw_read]. destruct (N.eqb_spec (r_plen s) 0) as [E0|_]; [lia|].
      cbv zeta. rewrite Hk.
      replace k with (length (wire M (r_key s) b1)) at 1 by (rewrite wire_length; exact Hl1).
      rewrite (read_payload_app s _ rest Hc Hi). rewrite unwire, wire_length, Hl1. reflexivity. }
    exists b1, b2, fs. eexists. split; [exact RR|].
    split; [intro E; rewrite E in Hl1; cbn [length] in Hl1; lia|].
    split; [rewrite Hl1; unfold k; lia|].
    split; [rewrite app_assoc, <- Hb; reflexivity|].
    split; [|split; [reflexivity|split; [reflexivity|split; [reflexivity|]]]].
    + unfold at_posG, inv. rsimp. split; [reflexivity|]. split; [lia|]. auto 10.
    + rsimp. rewrite Hi. assert (Hk1 : (1 <= k)%nat) by (unfold k; lia). rewrite !app_length, !wire_length. lia.
Qed.


(* ---------- one Read of the message reader, limit not reached by this message ---------- *)
Definition lrn_ok (s : rst) (rem : nat) : Prop := (r_lrn s < 0 \/ Z.of_nat rem < r_lrn s)%Z.

Definition stepM_data (res : bytes * option rerr * bool * rst) (s : rst) (b : bytes) (fs : list frag) (tl : bytes) : Prop :=
  exists d b' fs' s', res = (d, None, false, s') /\ d <> [] /\
       d ++ b' ++ bodies fs' = b ++ bodies fs /\ at_posG s' b' fs' tl /\ lrn_ok s' (length (b' ++ bodies fs')) /\
       r_replies s' ++ pw (ctls fs') = r_replies s ++ pw (ctls fs) /\
       r_pongs s' ++ pn (ctls fs') = r_pongs s ++ pn (ctls fs) /\
       (length (r_inq s') < length (r_inq s))%nat.
Definition stepM_eof (res : bytes * option rerr * bool * rst) (s : rst) (b : bytes) (fs : list frag) (tl : bytes) : Prop :=
  exists s', res = ([], None, true, s') /\ b = [] /\ bodies fs = [] /\
       finalG s' tl (r_replies s ++ pw (ctls fs)) (r_pongs s ++ pn (ctls fs)).

Definition capped (s : rst) (n : nat) : nat :=
  if (0 <? r_lrn s)%Z && (r_lrn s <? Z.of_nat n)%Z then Z.to_nat (r_lrn s) else n.

Lemma msg_read_raw fuel n s : r_closed s = false -> r_flate s = false -> r_lrn s <> 0%Z ->
  msg_read cfg inflate fuel n s =
    (let '(d, er, eof, s1) := raw_read cfg fuel (capped s n) s in
     let s2 := sub_lrn s1 (length d) in
     if limit_hit s (length d) then (d, Some RELimit, false, write_error s2 c_StatusMessageTooBig) else (d, er, eof, s2)).
Proof.
  intros Hc Hfl Hl. unfold msg_read. rewrite Hc. destruct (Z.eqb_spec (r_lrn s) 0) as [E0|_]; [contradiction|].
  cbv zeta. rewrite Hfl. reflexivity.
Qed.

Lemma capped_pos s n : (0 < n)%nat -> (0 < capped s n)%nat.
Proof. intro Hn. unfold capped. destruct (Z.ltb_spec 0 (r_lrn s)); destruct (Z.ltb_spec (r_lrn s) (Z.of_nat n)); cbn [andb]; lia. Qed.
Lemma capped_le s n : (0 < r_lrn s)%Z -> (Z.of_nat (capped s n) <= r_lrn s)%Z.
Proof. intro H. unfold capped. destruct (Z.ltb_spec 0 (r_lrn s)); destruct (Z.ltb_spec (r_lrn s) (Z.of_nat n)); cbn [andb]; lia. Qed.
Lemma capped_le_n s n : (capped s n <= n)%nat.
Proof. unfold capped. destruct (Z.ltb_spec 0 (r_lrn s)); destruct (Z.ltb_spec (r_lrn s) (Z.of_nat n)); cbn [andb]; lia. Qed.

Lemma msg_read_stepG : forall fuel s b fs tl n, (0 < n)%nat -> at_posG s b fs tl -> lrn_ok s (length (b ++ bodies fs)) ->
  (length (r_inq s) < fuel)%nat ->
  stepM_data (msg_read cfg inflate fuel n s) s b fs tl \/ stepM_eof (msg_read cfg inflate fuel n s) s b fs tl.
Proof.
  intros fuel s b fs tl n Hn Ha Hok Hfu.
  pose proof Ha as (_ & _ & _ & _ & Hc & Hfl & Hlim & Hsent & He).
  rewrite msg_read_raw by (auto; unfold lrn_ok in Hok; lia).
  pose proof (capped_pos s n Hn) as Hn'. pose proof (capped_le_n s n) as Hn''.
  destruct (raw_read_stepG fuel s b fs tl (capped s n) Hn' Ha Hfu) as [(d & b' & fs' & s' & E & Hd & Hdn & Hcc & Ha' & Hlr & Hr & Hg & Hl)|(s' & E & Eb & Er & Hlr & Fi)].
  - left. rewrite E. cbv beta iota zeta.
    assert (Hlen : (length d + length (b' ++ bodies fs') = length (b ++ bodies fs))%nat) by (rewrite <- app_length, Hcc; reflexivity).
    assert (Hh : limit_hit s (length d) = false).
    { unfold limit_hit. unfold lrn_ok in Hok. destruct (Z.leb_spec 0 (r_lrn s)); destruct (Z.leb_spec (r_lrn s - Z.of_nat (length d)) 0); cbn [andb]; try reflexivity; lia. }
    rewrite Hh. exists d, b', fs', (sub_lrn s' (length d)). split; [reflexivity|]. split; [exact Hd|]. split; [exact Hcc|].
    split; [apply at_posG_sub_lrn; exact Ha'|].
    split; [unfold lrn_ok in *; rewrite sub_lrn_lrn, Hlr; destruct (Z.ltb_spec (r_lrn s) 0); lia|].
    cbn [sub_lrn r_replies r_pongs r_inq]. auto.
  - right. rewrite E. cbv beta iota zeta.
    assert (Hh : limit_hit s (length (@nil N)) = false).
    { unfold limit_hit. unfold lrn_ok in Hok. cbn [length]. destruct (Z.leb_spec 0 (r_lrn s)); destruct (Z.leb_spec (r_lrn s - Z.of_nat 0) 0); cbn [andb]; try reflexivity; lia. }
    rewrite Hh. exists (sub_lrn s' (length (@nil N))). split; [reflexivity|]. split; [exact Eb|]. split; [exact Er|].
    apply finalG_sub_lrn. exact Fi.
Qed.

(* ---------- the caller's loop: exactly the rest of the message, whatever the buffer size ---------- *)
Lemma read_all_restG : forall fuel s b fs tl n racc, (0 < n)%nat -> at_posG s b fs tl -> lrn_ok s (length (b ++ bodies fs)) ->
  (length (r_inq s) < fuel)%nat ->
  exists s', read_all cfg inflate fuel n s racc = (concat (frev racc) ++ b ++ bodies fs, None, s') /\
     finalG s' tl (r_replies s ++ pw (ctls fs)) (r_pongs s ++ pn (ctls fs)).
Proof.
  induction fuel as [|fuel IH]; intros s b fs tl n racc Hn Ha Hok Hfu; [lia|].
  cbn [read_all].
  destruct (msg_read_stepG (S (S fuel)) s b fs tl n Hn Ha Hok ltac:(lia)) as [(d & b' & fs' & s' & E & Hd & Hc & Ha' & Hok' & Hr & Hg & Hl)|(s' & E & Eb & Er & Fi)].
  - rewrite E. destruct (IH s' b' fs' tl n (d :: racc) Hn Ha' Hok' ltac:(lia)) as (s'' & E' & Fi).
    exists s''. rewrite E'. split.
    + rewrite frev_cons, <- app_assoc, Hc. reflexivity.
    + rewrite <- Hr, <- Hg. exact Fi.
  - rewrite E. exists s'. split; [|exact Fi]. rewrite frev_cons, Eb, Er. reflexivity.
Qed.

Lemma read_all_z_restG : forall fuel s b fs tl n racc, (0 < n)%nat -> at_posG s b fs tl -> lrn_ok s (length (b ++ bodies fs)) ->
  (length (r_inq s) < fuel)%nat ->
  exists s', read_all_z cfg inflate fuel n s racc = (concat (frev racc) ++ b ++ bodies fs, None, s') /\
     finalG s' tl (r_replies s ++ pw (ctls fs)) (r_pongs s ++ pn (ctls fs)).
Proof.
  intros fuel s b fs tl n racc Hn Ha Hok Hfu. unfold read_all_z.
  destruct (msg_read_stepG fuel s b fs tl n Hn Ha Hok Hfu) as [(d & b' & fs' & s' & E & Hd & Hc & Ha' & Hok' & Hr & Hg & Hl)|(s' & E & Eb & Er & Fi)].
  - rewrite E. destruct (read_all_restG (length (r_zout s') + fuel) s' b' fs' tl n (d :: racc) Hn Ha' Hok' ltac:(lia)) as (s'' & E' & Fi).
    exists s''. rewrite E'. split.
    + rewrite frev_cons, <- app_assoc, Hc. reflexivity.
    + rewrite <- Hr, <- Hg. exact Fi.
  - rewrite E. exists s'. split; [|exact Fi]. rewrite frev_cons, Eb, Er. reflexivity.
Qed.

(* ---------- Conn.reader at a message boundary ---------- *)
Lemma reader_msgG : forall fuel s m tl, wf_smsg m -> Inv s -> r_fin s = true ->
  r_inq s = enc_msg M m ++ tl -> (length (r_inq s) < fuel)%nat ->
  exists s1, reader cfg fuel s = Ok (sm_typ m) s1 /\ at_posG s1 (fr_body (sm_first m)) (sm_rest m) tl /\ r_lrn s1 = lim /\
    r_replies s1 = r_replies s ++ pw (fr_ctl (sm_first m)) /\ r_pongs s1 = r_pongs s ++ pn (fr_ctl (sm_first m)) /\
    (length (r_inq s1) <= length (r_inq s))%nat.
Proof.
  intros fuel s m tl (Ht & (Hcs & Hbw & Hbl & Hkw) & Hwr) Hq Hf Hi Hfu.
  unfold enc_msg, enc_frag in Hi. rewrite enc_frame_mk in Hi. rewrite <- !app_assoc in Hi.
  assert (Ho : sm_typ m = 0 \/ sm_typ m = 1 \/ sm_typ m = 2) by (destruct Ht; auto).
  destruct (read_loop_ctlsG (fr_ctl (sm_first m)) fuel s (is_nil (sm_rest m)) (sm_typ m) (fr_key (sm_first m)) (length (fr_body (sm_first m)))
              (wire M (fr_key (sm_first m)) (fr_body (sm_first m)) ++ enc_rest M (sm_rest m) ++ tl) Hcs Ho Hbl Hkw Hq Hi Hfu)
    as (s1 & RL & I1 & Q1 & (F1 & P1 & K1 & L1) & R1 & G1).
  unfold reader. destruct Hq as (Hc & Hfl & Hlim & Hsent & He). rewrite Hc, Hf. cbn [negb]. rewrite RL.
  cbn [h_opc mk_hdr].
  destruct (N.eqb_spec (sm_typ m) 0) as [E0|_]; [destruct Ht as [Ht|Ht]; rewrite Ht in E0; discriminate|].
  eexists. split; [reflexivity|].
  destruct Q1 as (Q1a & Q1b & Q1c & Q1d & Q1e).
  split; [|split; [rsimp; exact Q1c|split; [rsimp; exact R1|split; [rsimp; exact G1|]]]].
  - unfold at_posG, inv. rsimp. rewrite wire_key. auto 10.
  - rsimp. rewrite I1, Hi. rewrite !app_length. lia.
Qed.

(* ---------- the whole script, followed by arbitrary further operations ---------- *)
Definition lim_ok (n : nat) : Prop := (lim < 0 \/ Z.of_nat n < lim)%Z.

Lemma read_ops_cons n sizes ops : read_ops (n :: sizes) ++ ops = OReader :: OReadAllN n :: (read_ops sizes ++ ops).
Proof. reflexivity. Qed.

Lemma run_script_validG : forall ms sizes ops fuel s tl,
  Forall wf_smsg ms -> Forall (fun m => lim_ok (length (sm_payload m))) ms ->
  length sizes = length ms -> Forall (fun n => 0 < n)%nat sizes ->
  Inv s -> r_fin s = true -> r_inq s = enc_script M ms ++ tl -> (length (r_inq s) < fuel)%nat ->
  exists s', finalG s' tl (r_replies s ++ pw (flat_map sm_ctls ms)) (r_pongs s ++ pn (flat_map sm_ctls ms)) /\
    run_script cfg inflate fuel (read_ops sizes ++ ops) s None =
      (let '(o, s2) := run_script cfg inflate fuel ops s' None in (expected_obs ms ++ o, s2)).
Proof.
  induction ms as [|m ms IH]; intros sizes ops fuel s tl Hw Hlk Hl Hpos Hq Hf Hi Hfu.
  - destruct sizes as [|n sizes]; [|discriminate]. exists s. split.
    + unfold finalG. cbn [flat_map pw pn]. rewrite !app_nil_r. cbn [enc_script map concat app] in Hi. auto 10.
    + cbn [read_ops flat_map app expected_obs]. destruct (run_script cfg inflate fuel ops s None) as [o s2]. reflexivity.
  - destruct sizes as [|n sizes]; [discriminate|]. cbn [length] in Hl. injection Hl as Hl.
    inversion Hw as [|m0 ms0 Hm Hw']. subst m0 ms0.
    inversion Hlk as [|m0 ms0 Hmk Hlk']. subst m0 ms0.
    inversion Hpos as [|n0 sz0 Hn Hpos']. subst n0 sz0.
    cbn [enc_script map concat] in Hi. rewrite <- app_assoc in Hi.
    change (concat (map (enc_msg M) ms)) with (enc_script M ms) in Hi.
    destruct (reader_msgG fuel s m (enc_script M ms ++ tl) Hm Hq Hf Hi Hfu) as (s1 & R & A & N1 & R1 & G1 & L1).
    destruct (read_all_z_restG fuel s1 (fr_body (sm_first m)) (sm_rest m) (enc_script M ms ++ tl) n [] Hn A)
      as (s2 & RZ & I2 & F2 & Q2 & R2 & G2).
    { unfold lrn_ok. rewrite N1. exact Hmk. }
    { lia. }
    assert (L2 : (length (r_inq s2) < fuel)%nat).
    { rewrite I2. rewrite Hi in Hfu. rewrite app_length in Hfu. lia. }
    destruct (IH sizes ops fuel s2 tl Hw' Hlk' Hl Hpos' Q2 F2 I2 L2) as (s3 & Fi & RS).
    exists s3. split.
    + rewrite R2, R1, G2, G1 in Fi. cbn [flat_map]. unfold sm_ctls at 1 3.
      fold (ctls (sm_rest m)). rewrite !pw_app, !pn_app, !app_assoc. exact Fi.
    + rewrite read_ops_cons, run_script_pair, R. cbv beta iota. rewrite RZ. cbv beta iota. rewrite RS.
      destruct (run_script cfg inflate fuel ops s3 None) as [o s4]. reflexivity.
Qed.

(* ---------- the message that exceeds the limit ---------- *)
Definition stepL_hit (res : bytes * option rerr * bool * rst) (s : rst) (b : bytes) (fs : list frag) : Prop :=
  exists s', res = (firstn (Z.to_nat (r_lrn s)) (b ++ bodies fs), Some RELimit, false, s') /\
     exists rs, r_replies s' = rs ++ [RpClose c_StatusMessageTooBig None].
Definition stepL_data (res : bytes * option rerr * bool * rst) (s : rst) (b : bytes) (fs : list frag) (tl : bytes) : Prop :=
  exists d b' fs' s', res = (d, None, false, s') /\
       d ++ b' ++ bodies fs' = b ++ bodies fs /\ at_posG s' b' fs' tl /\ (0 < r_lrn s')%Z /\ r_lrn s' = (r_lrn s - Z.of_nat (length d))%Z /\
       (length (r_inq s') < length (r_inq s))%nat.

Lemma msg_read_limit : forall fuel s b fs tl n, (0 < n)%nat -> at_posG s b fs tl ->
  (0 < r_lrn s)%Z -> (r_lrn s <= Z.of_nat (length (b ++ bodies fs)))%Z -> (length (r_inq s) < fuel)%nat ->
  stepL_hit (msg_read cfg inflate fuel n s) s b fs \/ stepL_data (msg_read cfg inflate fuel n s) s b fs tl.
Proof.
  intros fuel s b fs tl n Hn Ha Hpos Hle Hfu.
  pose proof Ha as (_ & _ & _ & _ & Hc & Hfl & Hlim & Hsent & He).
  rewrite msg_read_raw by (auto; lia).
  pose proof (capped_pos s n Hn) as Hn'. pose proof (capped_le s n ltac:(lia)) as Hcap.
  destruct (raw_read_stepG fuel s b fs tl (capped s n) Hn' Ha Hfu) as [(d & b' & fs' & s' & E & Hd & Hdn & Hcc & Ha' & Hlr & Hr & Hg & Hl)|(s' & E & Eb & Er & Hlr & Fi)].
  - rewrite E. cbv beta iota zeta.
    assert (Hlen : (length d + length (b' ++ bodies fs') = length (b ++ bodies fs))%nat) by (rewrite <- app_length, Hcc; reflexivity).
    assert (Hdl : (Z.of_nat (length d) <= r_lrn s)%Z) by lia.
    unfold limit_hit. destruct (Z.leb_spec 0 (r_lrn s)) as [_|Hx]; [|lia]. cbn [andb].
    destruct (Z.leb_spec (r_lrn s - Z.of_nat (length d)) 0) as [Hhit|Hno].
    + left. eexists. split.
      * assert (Ed : d = firstn (Z.to_nat (r_lrn s)) (b ++ bodies fs)).
        { rewrite <- Hcc. replace (Z.to_nat (r_lrn s)) with (length d) by lia. rewrite firstn_app_exact by reflexivity. reflexivity. }
        rewrite <- Ed. reflexivity.
      * exists (r_replies s'). rewrite write_error_replies; [reflexivity|].
        destruct Ha' as (_ & _ & _ & _ & _ & _ & _ & Hs' & _). exact Hs'.
    + right. exists d, b', fs', (sub_lrn s' (length d)). split; [reflexivity|]. split; [exact Hcc|].
      split; [apply at_posG_sub_lrn; exact Ha'|].
      assert (EL : r_lrn (sub_lrn s' (length d)) = (r_lrn s - Z.of_nat (length d))%Z).
      { rewrite sub_lrn_lrn, Hlr. destruct (Z.ltb_spec (r_lrn s) 0); [lia|reflexivity]. }
      split; [lia|]. split; [exact EL|]. cbn [sub_lrn r_inq]. exact Hl.
  - exfalso. rewrite Eb, Er in Hle. cbn [app length] in Hle. lia.
Qed.

Lemma firstn_app_split (d r : bytes) k : (length d <= k)%nat -> firstn k (d ++ r) = d ++ firstn (k - length d) r.
Proof. apply firstn_app_ge. Qed.

Lemma read_all_limit : forall fuel s b fs tl n racc, (0 < n)%nat -> at_posG s b fs tl ->
  (0 < r_lrn s)%Z -> (r_lrn s <= Z.of_nat (length (b ++ bodies fs)))%Z -> (length (r_inq s) < fuel)%nat ->
  exists s', read_all cfg inflate fuel n s racc = (concat (frev racc) ++ firstn (Z.to_nat (r_lrn s)) (b ++ bodies fs), Some RELimit, s') /\
     exists rs, r_replies s' = rs ++ [RpClose c_StatusMessageTooBig None].
Proof.
  induction fuel as [|fuel IH]; intros s b fs tl n racc Hn Ha Hpos Hle Hfu; [lia|].
  cbn [read_all].
  destruct (msg_read_limit (S (S fuel)) s b fs tl n Hn Ha Hpos Hle ltac:(lia)) as [(s' & E & Hrs)|(d & b' & fs' & s' & E & Hc & Ha' & Hpos' & EL & Hl)].
  - rewrite E. exists s'. split; [|exact Hrs]. rewrite frev_cons. reflexivity.
  - rewrite E.
    assert (Hlen : (length d + length (b' ++ bodies fs') = length (b ++ bodies fs))%nat) by (rewrite <- app_length, Hc; reflexivity).
    destruct (IH s' b' fs' tl n (d :: racc) Hn Ha' Hpos' ltac:(lia) ltac:(lia)) as (s'' & E' & Hrs).
    exists s''. rewrite E'. split; [|exact Hrs].
    rewrite frev_cons, <- app_assoc. rewrite <- Hc.
    rewrite (firstn_app_split d (b' ++ bodies fs')) by lia.
    replace (Z.to_nat (r_lrn s) - length d)%nat with (Z.to_nat (r_lrn s')) by lia. reflexivity.
Qed.

Lemma read_all_z_limit : forall fuel s b fs tl n racc, (0 < n)%nat -> at_posG s b fs tl ->
  (0 < r_lrn s)%Z -> (r_lrn s <= Z.of_nat (length (b ++ bodies fs)))%Z -> (length (r_inq s) < fuel)%nat ->
  exists s', read_all_z cfg inflate fuel n s racc = (concat (frev racc) ++ firstn (Z.to_nat (r_lrn s)) (b ++ bodies fs), Some RELimit, s') /\
     exists rs, r_replies s' = rs ++ [RpClose c_StatusMessageTooBig None].
Proof.
  intros fuel s b fs tl n racc Hn Ha Hpos Hle Hfu. unfold read_all_z.
  destruct (msg_read_limit fuel s b fs tl n Hn Ha Hpos Hle Hfu) as [(s' & E & Hrs)|(d & b' & fs' & s' & E & Hc & Ha' & Hpos' & EL & Hl)].
  - rewrite E. exists s'. split; [|exact Hrs]. rewrite frev_cons. reflexivity.
  - rewrite E.
    assert (Hlen : (length d + length (b' ++ bodies fs') = length (b ++ bodies fs))%nat) by (rewrite <- app_length, Hc; reflexivity).
    destruct (read_all_limit (length (r_zout s') + fuel) s' b' fs' tl n (d :: racc) Hn Ha' Hpos' ltac:(lia) ltac:(lia)) as (s'' & E' & Hrs).
    exists s''. rewrite E'. split; [|exact Hrs].
    rewrite frev_cons, <- app_assoc. rewrite <- Hc.
    rewrite (firstn_app_split d (b' ++ bodies fs')) by lia.
    replace (Z.to_nat (r_lrn s) - length d)%nat with (Z.to_nat (r_lrn s')) by lia. reflexivity.
Qed.

End Gen.

(* ---------- splitting scripts ---------- *)
Lemma enc_script_app m a b : enc_script m (a ++ b) = enc_script m a ++ enc_script m b.
Proof. unfold enc_script. rewrite map_app, concat_app. reflexivity. Qed.
Lemma enc_script_cons m x b : enc_script m (x :: b) = enc_msg m x ++ enc_script m b.
Proof. reflexivity. Qed.
Lemma read_ops_app a b : read_ops (a ++ b) = read_ops a ++ read_ops b.
Proof. apply flat_map_app. Qed.

Lemma split_sizes {A B} (sizes : list A) (pre : list B) (m : B) (post : list B) : length sizes = length (pre ++ m :: post) ->
  exists s1 n s2, sizes = s1 ++ n :: s2 /\ length s1 = length pre /\ length s2 = length post.
Proof.
  intro H. rewrite app_length in H. cbn [length] in H.
  pose proof (firstn_skipn (length pre) sizes) as Hs.
  destruct (skipn (length pre) sizes) as [|n s2] eqn:Es.
  - exfalso. assert (Hx : length (skipn (length pre) sizes) = 0%nat) by (rewrite Es; reflexivity). rewrite skipn_length in Hx. lia.
  - exists (firstn (length pre) sizes), n, s2. split; [symmetry; exact Hs|]. split; [rewrite firstn_length; lia|].
    assert (Hx : length (skipn (length pre) sizes) = S (length s2)) by (rewrite Es; reflexivity). rewrite skipn_length in Hx. lia.
Qed.

Lemma inv_init lim inq e : inv lim e (r_init lim inq e).
Proof. unfold inv, r_init. rsimp. auto 10. Qed.

(* ---------- GOAL 2: a read limit L set before the first message ---------- *)
Theorem reader_limit_stream : forall cfg inflate ms sizes e (L : nat),
  Forall wf_smsg ms -> length sizes = length ms -> Forall (fun n => 0 < n)%nat sizes ->
  let masked := role_eqb (rc_role cfg) Server in
  let r := run cfg inflate (Z.of_nat L + 1)%Z (enc_script masked ms) e (read_ops sizes) in
  (Forall (fun m => length (sm_payload m) <= L)%nat ms -> fst r = expected_obs ms) /\
  (forall pre m post, ms = pre ++ m :: post -> Forall (fun m' => length (sm_payload m') <= L)%nat pre -> (L < length (sm_payload m))%nat ->
     fst r = expected_obs pre ++ [ObReader (inl (sm_typ m)); ObMsg (firstn (S L) (sm_payload m)) (Some RELimit)] /\
     exists rs, r_replies (snd r) = rs ++ [RpClose Gen.Consts.c_StatusMessageTooBig None]).
Proof.
  intros cfg inflate ms sizes e L Hw Hl Hpos masked r. subst r masked.
  change (role_eqb (rc_role cfg) Server) with (is_server cfg). unfold run.
  set (lim := (Z.of_nat L + 1)%Z).
  set (fuel := S (S (length (enc_script (is_server cfg) ms)))).
  split.
  - intro Hsmall.
    destruct (run_script_validG cfg inflate lim e ms sizes [] fuel (r_init lim (enc_script (is_server cfg) ms) e) [] Hw) as (s' & Fi & RS).
    + eapply Forall_impl; [|exact Hsmall]. intros m Hm. unfold lim_ok, lim. cbv beta in Hm. lia.
    + exact Hl.
    + exact Hpos.
    + apply inv_init.
    + reflexivity.
    + unfold r_init. rsimp. rewrite app_nil_r. reflexivity.
    + unfold r_init, fuel. rsimp. lia.
    + rewrite app_nil_r in RS. rewrite RS. cbn [run_script fst]. apply app_nil_r.
  - intros pre m post Hms Hsmall Hbig.
    destruct (split_sizes sizes pre m post ltac:(rewrite Hl, Hms; reflexivity)) as (sz1 & n & sz2 & Hsz & Hl1 & Hl2).
    rewrite Hms in Hw. apply Forall_app in Hw. destruct Hw as (Hw1 & Hw2).
    inversion Hw2 as [|m0 ms0 Hm Hw3]. subst m0 ms0.
    rewrite Hsz in Hpos. apply Forall_app in Hpos. destruct Hpos as (Hp1 & Hp2).
    inversion Hp2 as [|n0 sz0 Hn Hp3]. subst n0 sz0.
    set (tl := enc_msg (is_server cfg) m ++ enc_script (is_server cfg) post).
    assert (Hstream : enc_script (is_server cfg) ms = enc_script (is_server cfg) pre ++ tl).
    { rewrite Hms, enc_script_app, enc_script_cons. reflexivity. }
    destruct (run_script_validG cfg inflate lim e pre sz1 (OReader :: OReadAllN n :: read_ops sz2) fuel
                (r_init lim (enc_script (is_server cfg) ms) e) tl Hw1) as (s' & (I' & F' & Q' & R' & G') & RS).
    + eapply Forall_impl; [|exact Hsmall]. intros m' Hm'. unfold lim_ok, lim. cbv beta in Hm'. lia.
    + exact Hl1.
    + exact Hp1.
    + apply inv_init.
    + reflexivity.
    + unfold r_init. rsimp. exact Hstream.
    + unfold r_init, fuel. rsimp. lia.
    + assert (Hfu : (length (r_inq s') < fuel)%nat).
      { rewrite I'. unfold fuel. rewrite Hstream, app_length. lia. }
      destruct (reader_msgG cfg inflate lim e fuel s' m (enc_script (is_server cfg) post) Hm Q' F' I' Hfu) as (s1 & R & A & N1 & R1 & G1 & L1).
      destruct (read_all_z_limit cfg inflate lim e fuel s1 (fr_body (sm_first m)) (sm_rest m) (enc_script (is_server cfg) post) n [] Hn A)
        as (s2 & RZ & Hrs).
      { rewrite N1. unfold lim. lia. }
      { rewrite N1. unfold lim. change (fr_body (sm_first m) ++ bodies (sm_rest m)) with (sm_payload m). lia. }
      { lia. }
      rewrite Hsz, read_ops_app. change (read_ops (n :: sz2)) with (OReader :: OReadAllN n :: read_ops sz2).
      rewrite RS. rewrite run_script_pair, R. cbv beta iota. rewrite RZ. cbv beta iota. cbn [fst snd].
      split; [|exact Hrs].
      rewrite N1. unfold lim. replace (Z.to_nat (Z.of_nat L + 1)) with (S L) by lia.
      change (fr_body (sm_first m) ++ bodies (sm_rest m)) with (sm_payload m). reflexivity.
Qed.

Print Assumptions reader_limit_stream.

(* ---------- a header cut short ---------- *)
Lemma take_n_firstn_short n c (l : bytes) : (c < n)%nat -> take_n n (firstn c l) = None.
Proof. intro H. rewrite take_n_spec. pose proof (firstn_le_length c l). destruct (Nat.leb_spec n (length (firstn c l))); [lia|reflexivity]. Qed.

Lemma dec_short h c : wf_hdr h -> (c < length (enc_hdr h))%nat -> dec_hdr (firstn c (enc_hdr h)) = DecShort.
Proof.
  intros (Ho & Hp & Hk & Hz) Hc. rewrite enc_hdr_length in Hc. unfold enc_hdr. cbn [app].
  destruct c as [|[|c]]; [reflexivity | reflexivity |]. cbn [firstn]. unfold dec_hdr, dec_ext. cbv zeta.
  assert (Mk : (128 <=? enc_b1 h) = h_masked h).
  { unfold enc_b1, bit. destruct (h_masked h); destruct (N.ltb_spec 65535 (h_plen h)); destruct (N.ltb_spec 125 (h_plen h)); lia. }
  rewrite Mk, enc_b1_mod128. clear Mk.
  set (kp := if h_masked h then key4 (h_key h) else []).
  assert (Lkp : length kp = if h_masked h then 4%nat else 0%nat).
  { unfold kp. destruct (h_masked h); [apply key4_length | reflexivity]. }
  assert (FIN : forall c' pl, (c' < length kp)%nat ->
    (if h_masked h
     then match take_n 4 (firstn c' kp) with
          | Some (kb, r2) => DecOk {| h_fin := 128 <=? enc_b0 h; h_rsv1 := N.testbit (enc_b0 h) 6; h_rsv2 := N.testbit (enc_b0 h) 5; h_rsv3 := N.testbit (enc_b0 h) 4; h_opc := enc_b0 h mod 16;
                                      h_masked := true; h_key := key_of4 kb; h_plen := pl |} r2
          | None => DecShort end
     else DecOk {| h_fin := 128 <=? enc_b0 h; h_rsv1 := N.testbit (enc_b0 h) 6; h_rsv2 := N.testbit (enc_b0 h) 5; h_rsv3 := N.testbit (enc_b0 h) 4; h_opc := enc_b0 h mod 16;
                   h_masked := false; h_key := zero_key; h_plen := pl |} (firstn c' kp)) = DecShort).
  { intros c' pl Hc'. rewrite Lkp in Hc'. destruct (h_masked h); [|lia]. rewrite take_n_firstn_short by exact Hc'. reflexivity. }
  pose proof (enc_ext_length h) as Le. unfold ext_len in Le, Hc. unfold enc_ext in *.
  destruct (N.ltb_spec 65535 (h_plen h)) as [Hbig|Hnb].
  - change (127 =? 126) with false. change (127 =? 127) with true. cbv iota.
    destruct (N.leb_spec (h_plen h) 125); [lia|]. destruct (N.leb_spec (h_plen h) 65535); [lia|].
    destruct (Nat.lt_ge_cases c 8) as [Hlt|Hge].
    + rewrite take_n_firstn_short by exact Hlt. reflexivity.
    + rewrite firstn_app_ge by lia. rewrite Le. rewrite <- Le at 1. rewrite take_n_app.
      change (Nat.eqb 8 0) with false. cbv iota.
      rewrite be_val_bytes by (change (256 ^ N.of_nat 8) with 18446744073709551616; lia).
      destruct (N.leb_spec 9223372036854775808 (h_plen h)); [lia|]. apply FIN. rewrite Lkp. destruct (h_masked h); lia.
  - destruct (N.ltb_spec 125 (h_plen h)) as [Hmid|Hsmall].
    + change (126 =? 126) with true. cbv iota.
      destruct (N.leb_spec (h_plen h) 125); [lia|]. destruct (N.leb_spec (h_plen h) 65535); [|lia].
      destruct (Nat.lt_ge_cases c 2) as [Hlt|Hge].
      * rewrite take_n_firstn_short by exact Hlt. reflexivity.
      * rewrite firstn_app_ge by lia. rewrite Le. rewrite <- Le at 1. rewrite take_n_app.
        change (Nat.eqb 2 0) with false. cbv iota.
        rewrite be_val_bytes by (change (256 ^ N.of_nat 2) with 65536; lia).
        destruct (N.leb_spec 9223372036854775808 (h_plen h)); [lia|]. apply FIN. rewrite Lkp. destruct (h_masked h); lia.
    + destruct (N.eqb_spec (h_plen h) 126); [lia|]. destruct (N.eqb_spec (h_plen h) 127); [lia|].
      destruct (N.leb_spec (h_plen h) 125); [|lia].
      cbn [app take_n]. change (Nat.eqb 0 0) with true. cbv iota.
      destruct (N.leb_spec 9223372036854775808 (h_plen h)); [lia|]. apply FIN. rewrite Lkp. destruct (h_masked h); lia.
Qed.

(* ---------- GOAL 1: the transport delivers a proper prefix of a valid stream ---------- *)
Section Cut.
Variable cfg : rcfg.
Variable inflate : bytes -> bytes -> bytes * istatus.
Variable lim : Z.
Variable e : ending.
Notation M := (is_server cfg).
Notation Inv := (inv lim e).

Lemma read_hdr_short s h c : wf_hdr h -> Inv s -> r_inq s = firstn c (enc_hdr h) -> (c < length (enc_hdr h))%nat ->
  read_hdr s = Err (end_err_of e) (set_inq s []).
Proof.
  intros Hw Hq Hi Hc. pose proof Hq as (Hcl & _). unfold read_hdr. rewrite Hcl, Hi, dec_short by assumption.
  rewrite (end_err_inv lim e s Hq). reflexivity.
Qed.

Lemma read_loop_cut : forall cs fuel s h c, Forall wf_ctl cs -> wf_hdr h -> Inv s ->
  r_inq s = firstn c (concat (map (enc_ctl M) cs) ++ enc_hdr h) ->
  (c < length (concat (map (enc_ctl M) cs) ++ enc_hdr h))%nat -> (length (r_inq s) < fuel)%nat ->
  exists s', read_loop cfg fuel s = Err (end_err_of e) s'.
Proof.
  induction cs as [|c0 cs IH]; intros fuel s h c Hcs Hh Hq Hi Hlt Hfu.
  - destruct fuel as [|fuel]; [lia|]. cbn [map concat app] in Hi, Hlt. cbn [read_loop].
    rewrite (read_hdr_short s h c Hh Hq Hi Hlt). eexists. reflexivity.
  - destruct fuel as [|fuel]; [lia|].
    inversion Hcs as [|c1 cs1 Hc0 Hcs']. subst c1 cs1.
    pose proof Hq as (Hcl & Hfl & Hlim & Hsent & He).
    assert (Efull : concat (map (enc_ctl M) (c0 :: cs)) ++ enc_hdr h =
                    enc_hdr (ctl_hdr cfg c0) ++ wire M (c_key c0) (c_payload c0) ++ (concat (map (enc_ctl M) cs) ++ enc_hdr h)).
    { cbn [map concat]. unfold enc_ctl at 1. rewrite enc_frame_mk. rewrite <- !app_assoc. reflexivity. }
    rewrite Efull in Hi, Hlt. set (rest := concat (map (enc_ctl M) cs) ++ enc_hdr h) in *.
    rewrite !app_length, wire_length in Hlt.
    destruct (Nat.lt_ge_cases c (length (enc_hdr (ctl_hdr cfg c0)))) as [Hc1|Hc1].
    + rewrite firstn_app_lt in Hi by lia. cbn [read_loop].
      rewrite (read_hdr_short s _ c (ctl_hdr_wf cfg c0 Hc0) Hq Hi Hc1). eexists. reflexivity.
    + rewrite firstn_app_ge in Hi by exact Hc1.
      set (c1 := (c - length (enc_hdr (ctl_hdr cfg c0)))%nat) in *.
      rewrite (read_loop_ctl_unfold cfg fuel s c0 _ Hc0 Hcl Hi).
      destruct (Nat.lt_ge_cases c1 (length (c_payload c0))) as [Hc2|Hc2].
      * destruct Hc0 as (Hopc & Hpw & Hpl & Hck).
        unfold handle_control, ctl_hdr. cbn [h_plen h_fin h_masked h_key h_opc mk_hdr negb].
        destruct (N.ltb_spec 125 (N.of_nat (length (c_payload c0)))) as [Hbad|_]; [lia|].
        rewrite Nat2N.id. unfold read_payload. rsimp. rewrite Hcl.
        rewrite take_n_firstn_short by exact Hc2. eexists. unfold end_err. rsimp. rewrite He. reflexivity.
      * rewrite firstn_app_ge in Hi |- * by (rewrite wire_length; exact Hc2). rewrite wire_length in Hi |- *.
        set (c2 := (c1 - length (c_payload c0))%nat) in *.
        destruct (handle_control_ok cfg inflate lim e (set_inq s (wire M (c_key c0) (c_payload c0) ++ firstn c2 rest)) c0 (firstn c2 rest) Hc0)
          as (s2 & HC & I2 & Q2 & _).
        { unfold inv. rsimp. auto 10. }
        { reflexivity. }
        rewrite HC.
        apply (IH fuel s2 h c2 Hcs' Hh Q2 I2).
        -- fold rest. unfold c2, c1. lia.
        -- rewrite I2. pose proof (firstn_le_length c2 rest). rewrite Hi in Hfu. rewrite !app_length in Hfu.
           pose proof (enc_hdr_len2 (ctl_hdr cfg c0)). lia.
Qed.

(* the input is a proper prefix of the rest of the current message *)
Definition cut_pos (s : rst) (b : bytes) (fs : list frag) (c : nat) : Prop :=
  r_inq s = firstn c (wire M (r_key s) b ++ enc_rest M fs) /\ (c < length b + length (enc_rest M fs))%nat /\
  r_plen s = N.of_nat (length b) /\ r_fin s = is_nil fs /\ Forall wf_frag fs /\ Inv s /\ (r_lrn s < 0)%Z.

Definition cut_data (res : bytes * option rerr * bool * rst) (s : rst) (b : bytes) (fs : list frag) : Prop :=
  exists d b' fs' c' s', res = (d, None, false, s') /\ d ++ b' ++ bodies fs' = b ++ bodies fs /\ cut_pos s' b' fs' c' /\
    (length (r_inq s') < length (r_inq s))%nat.
Definition cut_fail (res : bytes * option rerr * bool * rst) (b : bytes) (fs : list frag) : Prop :=
  exists d s', res = (d, Some (end_err_of e), false, s') /\ is_prefix d (b ++ bodies fs).

Lemma enc_rest_cons_split f r : enc_rest M (f :: r) =
  (concat (map (enc_ctl M) (fr_ctl f)) ++ enc_hdr (mk_hdr M (is_nil r) 0 (fr_key f) (length (fr_body f)))) ++
  wire M (fr_key f) (fr_body f) ++ enc_rest M r.
Proof. cbn [enc_rest]. unfold enc_frag. rewrite enc_frame_mk. rewrite <- !app_assoc. reflexivity. Qed.

Lemma raw_read_cut : forall fuel s b fs c n, (0 < n)%nat -> cut_pos s b fs c -> (length (r_inq s) < fuel)%nat ->
  cut_data (raw_read cfg fuel n s) s b fs \/ cut_fail (raw_read cfg fuel n s) b fs.
Proof.
  induction fuel as [|fuel IH]; intros s b fs c n Hn (Hi & Hlt & Hp & Hf & Hw & Hq & Hneg) Hfu; [lia|].
  pose proof Hq as (Hcl & Hfl & Hlim & Hsent & He).
  destruct b as [|x b0].
  - cbn [length] in Hp. cbn [raw_read]. destruct (N.eqb_spec (r_plen s) 0) as [_|Hne]; [|lia].
    rewrite wire_nil in Hi. cbn [app] in Hi. cbn [length] in Hlt.
    destruct fs as [|f r]; [cbn [enc_rest length] in Hlt; lia|].
    cbn [is_nil] in Hf. rewrite Hf. cbn [negb].
    rewrite enc_rest_cons_split in Hi, Hlt.
    inversion Hw as [|f0 r0 Hwf Hwr]. subst f0 r0.
    destruct Hwf as (Hcs & Hbw & Hbl & Hkw).
    set (h := mk_hdr M (is_nil r) 0 (fr_key f) (length (fr_body f))) in *.
    set (AH := concat (map (enc_ctl M) (fr_ctl f)) ++ enc_hdr h) in *.
    rewrite !app_length, wire_length in Hlt.
    destruct (Nat.lt_ge_cases c (length AH)) as [Hc1|Hc1].
    + right. rewrite firstn_app_lt in Hi by lia.
      destruct (read_loop_cut (fr_ctl f) (S fuel) s h c Hcs) as (s1 & RL); auto.
      { apply mk_hdr_wf; auto; lia. }
      rewrite RL. exists [], s1. split; [reflexivity|]. eexists. reflexivity.
    + rewrite firstn_app_ge in Hi by exact Hc1. unfold AH in Hi. rewrite <- app_assoc in Hi. fold AH in Hi.
      set (c1 := (c - length AH)%nat) in *.
      set (tl := firstn c1 (wire M (fr_key f) (fr_body f) ++ enc_rest M r)) in *.
      destruct (read_loop_ctlsG cfg inflate lim e (fr_ctl f) (S fuel) s (is_nil r) 0 (fr_key f) (length (fr_body f)) tl
                  Hcs (or_introl eq_refl) Hbl Hkw Hq Hi Hfu)
        as (s1 & RL & I1 & Q1 & (F1 & P1 & K1 & L1) & R1 & G1).
      rewrite RL. cbn [h_opc mk_hdr]. change (0 =? 0) with true. cbn [negb]. fold h.
      set (s2 := set_frame s1 h).
      assert (A2 : cut_pos s2 (fr_body f) r c1).
      { unfold cut_pos, inv, s2, h. rsimp. rewrite wire_key. destruct Q1 as (Q1a & Q1b & Q1c & Q1d & Q1e).
        split; [exact I1|]. split; [unfold c1; lia|]. split; [reflexivity|]. split; [reflexivity|]. split; [exact Hwr|].
        split; [auto 10|]. rewrite L1. exact Hneg. }
      assert (L0 : (length (r_inq s2) + 2 <= length (r_inq s))%nat).
      { unfold s2. rsimp. rewrite I1, Hi. rewrite !app_length. pose proof (enc_hdr_len2 h). lia. }
      assert (L2 : (length (r_inq s2) < fuel)%nat) by lia.
      destruct (IH s2 (fr_body f) r c1 n Hn A2 L2) as [(d & b' & fs' & c' & s' & E & Hc & Ha & Hl)|(d & s' & E & Hpre)].
      * left. exists d, b', fs', c', s'. split; [exact E|].
        split; [unfold bodies at 2; cbn [map concat app]; exact Hc|]. split; [exact Ha|]. lia.
      * right. exists d, s'. split; [exact E|]. unfold bodies. cbn [map concat app]. exact Hpre.
  - set (bb := x :: b0) in *.
    assert (Hbl : (1 <= length bb)%nat) by (unfold bb; cbn [length]; lia).
    set (k := Nat.min n (length bb)).
    assert (Hk : (if N.of_nat n <? r_plen s then n else N.to_nat (r_plen s)) = k).
    { rewrite Hp. unfold k. destruct (N.ltb_spec (N.of_nat n) (N.of_nat (length bb))); lia. }
    destruct (Nat.lt_ge_cases c k) as [Hck|Hck].
    + right.
      assert (Hraw : r_inq s = wire M (r_key s) (firstn c bb)).
      { rewrite Hi. rewrite firstn_app_lt by (rewrite wire_length; unfold k in Hck; lia). apply wire_firstn. }
      exists (firstn c bb). eexists. split.
      * cbn [raw_read]. destruct (N.eqb_spec (r_plen s) 0) as [E0|_]; [lia|].
        cbv zeta. rewrite Hk. unfold read_payload. rewrite Hcl.
        assert (TN : take_n k (r_inq s) = None).
        { rewrite Hi. apply take_n_firstn_short. exact Hck. }
        rewrite TN. cbv beta iota. rewrite (end_err_inv lim e s Hq).
        assert (Hd : (if M then mask_spec (r_key s) (r_inq s) else r_inq s) = firstn c bb) by (rewrite Hraw; apply unwire).
        rewrite Hd. reflexivity.
      * exists (skipn c bb ++ bodies fs). rewrite app_assoc, firstn_skipn. reflexivity.
    + left.
      set (b1 := firstn k bb). set (b2 := skipn k bb).
      assert (Hb : bb = b1 ++ b2) by (symmetry; apply firstn_skipn).
      assert (Hl1 : length b1 = k) by (unfold b1; rewrite firstn_length; unfold k; lia).
      assert (Hl2 : (length bb = k + length b2)%nat) by (rewrite Hb at 1; rewrite app_length; lia).
      rewrite Hb, wire_app, <- app_assoc, Hl1 in Hi.
      rewrite firstn_app_ge in Hi by (rewrite wire_length; lia). rewrite wire_length, Hl1 in Hi.
      set (key' := if M then rotk (r_key s) k else r_key s) in *.
      set (rest := firstn (c - k) (wire M key' b2 ++ enc_rest M fs)) in *.
      assert (RR : raw_read cfg (S fuel) n s = (b1, None, false, sub_plen (set_inq s rest) k key')).
      { cbn [raw_read]. destruct (N.eqb_spec (r_plen s) 0) as [E0|_]; [lia|].
        cbv zeta. rewrite Hk.
        replace k with (length (wire M (r_key s) b1)) at 1 by (rewrite wire_length; exact Hl1).
        rewrite (read_payload_app s _ rest Hcl Hi). rewrite unwire, wire_length, Hl1. reflexivity. }
      exists b1, b2, fs, (c - k)%nat. eexists. split; [exact RR|].
      split; [rewrite app_assoc, <- Hb; reflexivity|].
      split.
      * unfold cut_pos, inv. rsimp. split; [reflexivity|]. split; [lia|]. split; [lia|]. auto 10.
      * rsimp. rewrite Hi. assert (Hk1 : (1 <= k)%nat) by (unfold k; lia). rewrite !app_length, !wire_length. lia.
Qed.

Lemma capped_neg s n : (r_lrn s < 0)%Z -> capped s n = n.
Proof. intro H. unfold capped. destruct (Z.ltb_spec 0 (r_lrn s)); [lia|reflexivity]. Qed.
Lemma limit_hit_neg s k : (r_lrn s < 0)%Z -> limit_hit s k = false.
Proof. intro H. unfold limit_hit. destruct (Z.leb_spec 0 (r_lrn s)); [lia|reflexivity]. Qed.

Lemma cut_pos_sub_lrn s b fs c k : cut_pos s b fs c -> cut_pos (sub_lrn s k) b fs c.
Proof.
  intros (Hi & Hlt & Hp & Hf & Hw & Hq & Hneg). unfold cut_pos. rewrite sub_lrn_lrn.
  destruct (Z.ltb_spec (r_lrn s) 0); [|lia]. cbn [sub_lrn r_inq r_key r_plen r_fin]. auto 10.
Qed.

Lemma msg_read_cut : forall fuel s b fs c n, (0 < n)%nat -> cut_pos s b fs c -> (length (r_inq s) < fuel)%nat ->
  cut_data (msg_read cfg inflate fuel n s) s b fs \/ cut_fail (msg_read cfg inflate fuel n s) b fs.
Proof.
  intros fuel s b fs c n Hn Ha Hfu.
  pose proof Ha as (_ & _ & _ & _ & _ & (Hcl & Hfl & _) & Hneg).
  rewrite msg_read_raw by (auto; lia). rewrite capped_neg by exact Hneg.
  destruct (raw_read_cut fuel s b fs c n Hn Ha Hfu) as [(d & b' & fs' & c' & s' & E & Hc & Ha' & Hl)|(d & s' & E & Hpre)].
  - left. rewrite E. cbv beta iota zeta. rewrite limit_hit_neg by exact Hneg.
    exists d, b', fs', c', (sub_lrn s' (length d)). split; [reflexivity|]. split; [exact Hc|].
    split; [apply cut_pos_sub_lrn; exact Ha'|]. cbn [sub_lrn r_inq]. exact Hl.
  - right. rewrite E. cbv beta iota zeta. rewrite limit_hit_neg by exact Hneg.
    exists d. eexists. split; [reflexivity|exact Hpre].
Qed.

Lemma is_prefix_app d x y : is_prefix x y -> is_prefix (d ++ x) (d ++ y).
Proof. intros (z & ->). exists z. apply app_assoc. Qed.

Lemma read_all_cut : forall fuel s b fs c n racc, (0 < n)%nat -> cut_pos s b fs c -> (length (r_inq s) < fuel)%nat ->
  exists d s', read_all cfg inflate fuel n s racc = (concat (frev racc) ++ d, Some (end_err_of e), s') /\ is_prefix d (b ++ bodies fs).
Proof.
  induction fuel as [|fuel IH]; intros s b fs c n racc Hn Ha Hfu; [lia|].
  cbn [read_all].
  destruct (msg_read_cut (S (S fuel)) s b fs c n Hn Ha ltac:(lia)) as [(d & b' & fs' & c' & s' & E & Hc & Ha' & Hl)|(d & s' & E & Hpre)].
  - rewrite E. destruct (IH s' b' fs' c' n (d :: racc) Hn Ha' ltac:(lia)) as (d1 & s'' & E' & Hpre).
    exists (d ++ d1), s''. rewrite E'. split.
    + rewrite frev_cons, <- app_assoc. reflexivity.
    + rewrite <- Hc. apply is_prefix_app. exact Hpre.
  - rewrite E. exists d, s'. split; [|exact Hpre]. rewrite frev_cons. reflexivity.
Qed.

Lemma read_all_z_cut : forall fuel s b fs c n racc, (0 < n)%nat -> cut_pos s b fs c -> (length (r_inq s) < fuel)%nat ->
  exists d s', read_all_z cfg inflate fuel n s racc = (concat (frev racc) ++ d, Some (end_err_of e), s') /\ is_prefix d (b ++ bodies fs).
Proof.
  intros fuel s b fs c n racc Hn Ha Hfu. unfold read_all_z.
  destruct (msg_read_cut fuel s b fs c n Hn Ha Hfu) as [(d & b' & fs' & c' & s' & E & Hc & Ha' & Hl)|(d & s' & E & Hpre)].
  - rewrite E. destruct (read_all_cut (length (r_zout s') + fuel) s' b' fs' c' n (d :: racc) Hn Ha' ltac:(lia)) as (d1 & s'' & E' & Hpre).
    exists (d ++ d1), s''. rewrite E'. split.
    + rewrite frev_cons, <- app_assoc. reflexivity.
    + rewrite <- Hc. apply is_prefix_app. exact Hpre.
  - rewrite E. exists d, s'. split; [|exact Hpre]. rewrite frev_cons. reflexivity.
Qed.

Lemma enc_msg_split m : enc_msg M m =
  (concat (map (enc_ctl M) (fr_ctl (sm_first m))) ++ enc_hdr (mk_hdr M (is_nil (sm_rest m)) (sm_typ m) (fr_key (sm_first m)) (length (fr_body (sm_first m))))) ++
  wire M (fr_key (sm_first m)) (fr_body (sm_first m)) ++ enc_rest M (sm_rest m).
Proof. unfold enc_msg, enc_frag. rewrite enc_frame_mk. rewrite <- !app_assoc. reflexivity. Qed.

Lemma reader_cut : forall fuel s m c, wf_smsg m -> (lim < 0)%Z -> Inv s -> r_fin s = true ->
  r_inq s = firstn c (enc_msg M m) -> (c < length (enc_msg M m))%nat -> (length (r_inq s) < fuel)%nat ->
  (exists s', reader cfg fuel s = Err (end_err_of e) s') \/
  (exists s1 c1, reader cfg fuel s = Ok (sm_typ m) s1 /\ cut_pos s1 (fr_body (sm_first m)) (sm_rest m) c1 /\
     (length (r_inq s1) <= length (r_inq s))%nat).
Proof.
  intros fuel s m c (Ht & (Hcs & Hbw & Hbl & Hkw) & Hwr) Hlim0 Hq Hf Hi Hlt Hfu.
  pose proof Hq as (Hcl & Hfl & Hlim & Hsent & He).
  assert (Ho : sm_typ m = 0 \/ sm_typ m = 1 \/ sm_typ m = 2) by (destruct Ht; auto).
  rewrite enc_msg_split in Hi, Hlt.
  set (h := mk_hdr M (is_nil (sm_rest m)) (sm_typ m) (fr_key (sm_first m)) (length (fr_body (sm_first m)))) in *.
  set (AH := concat (map (enc_ctl M) (fr_ctl (sm_first m))) ++ enc_hdr h) in *.
  rewrite !app_length, wire_length in Hlt.
  unfold reader. rewrite Hcl, Hf. cbn [negb].
  destruct (Nat.lt_ge_cases c (length AH)) as [Hc1|Hc1].
  - left. rewrite firstn_app_lt in Hi by lia.
    destruct (read_loop_cut (fr_ctl (sm_first m)) fuel s h c Hcs) as (s1 & RL); auto.
    { apply mk_hdr_wf; auto. destruct Ht as [E|E]; rewrite E; lia. }
    rewrite RL. eexists. reflexivity.
  - right. rewrite firstn_app_ge in Hi by exact Hc1. unfold AH in Hi. rewrite <- app_assoc in Hi. fold AH in Hi.
    set (c1 := (c - length AH)%nat) in *.
    set (tl := firstn c1 (wire M (fr_key (sm_first m)) (fr_body (sm_first m)) ++ enc_rest M (sm_rest m))) in *.
    destruct (read_loop_ctlsG cfg inflate lim e (fr_ctl (sm_first m)) fuel s (is_nil (sm_rest m)) (sm_typ m) (fr_key (sm_first m)) (length (fr_body (sm_first m))) tl
                Hcs Ho Hbl Hkw Hq Hi Hfu)
      as (s1 & RL & I1 & Q1 & (F1 & P1 & K1 & L1) & R1 & G1).
    rewrite RL. cbn [h_opc mk_hdr].
    destruct (N.eqb_spec (sm_typ m) 0) as [E0|_]; [destruct Ht as [Ht|Ht]; rewrite Ht in E0; discriminate|].
    eexists. exists c1. split; [reflexivity|].
    destruct Q1 as (Q1a & Q1b & Q1c & Q1d & Q1e).
    split.
    + unfold cut_pos, inv. rsimp. rewrite wire_key.
      split; [exact I1|]. split; [unfold c1; lia|]. split; [reflexivity|]. split; [reflexivity|]. split; [exact Hwr|].
      split; [auto 10|]. rewrite Q1c. exact Hlim0.
    + rsimp. rewrite I1, Hi. rewrite !app_length. lia.
Qed.

Lemma run_script_cut : forall fuel s m c n ops, wf_smsg m -> (lim < 0)%Z -> (0 < n)%nat -> Inv s -> r_fin s = true ->
  r_inq s = firstn c (enc_msg M m) -> (c < length (enc_msg M m))%nat -> (length (r_inq s) < fuel)%nat ->
  fst (run_script cfg inflate fuel (OReader :: OReadAllN n :: ops) s None) = [ObReader (inr (end_err_of e))] \/
  exists d, fst (run_script cfg inflate fuel (OReader :: OReadAllN n :: ops) s None) = [ObReader (inl (sm_typ m)); ObMsg d (Some (end_err_of e))] /\
            is_prefix d (sm_payload m).
Proof.
  intros fuel s m c n ops Hm Hlim0 Hn Hq Hf Hi Hlt Hfu.
  rewrite run_script_pair.
  destruct (reader_cut fuel s m c Hm Hlim0 Hq Hf Hi Hlt Hfu) as [(s' & R)|(s1 & c1 & R & A & L1)].
  - left. rewrite R. reflexivity.
  - right. rewrite R. cbv beta iota.
    destruct (read_all_z_cut fuel s1 (fr_body (sm_first m)) (sm_rest m) c1 n [] Hn A ltac:(lia)) as (d & s2 & RZ & Hpre).
    rewrite RZ. cbv beta iota. exists d. split; [reflexivity|exact Hpre].
Qed.

End Cut.

Lemma cut_split mk : forall ms cut, (cut < length (enc_script mk ms))%nat ->
  exists pre x post c, ms = pre ++ x :: post /\ (c < length (enc_msg mk x))%nat /\
    firstn cut (enc_script mk ms) = enc_script mk pre ++ firstn c (enc_msg mk x).
Proof.
  induction ms as [|x ms IH]; intros cut Hlt.
  - cbn [enc_script map concat length] in Hlt. lia.
  - rewrite enc_script_cons in Hlt |- *. rewrite app_length in Hlt.
    destruct (Nat.lt_ge_cases cut (length (enc_msg mk x))) as [Hc|Hc].
    + exists [], x, ms, cut. split; [reflexivity|]. split; [exact Hc|]. rewrite firstn_app_lt by lia. reflexivity.
    + destruct (IH (cut - length (enc_msg mk x))%nat ltac:(lia)) as (pre & y & post & c & Hms & Hcy & Hfi).
      exists (x :: pre), y, post, c. split; [rewrite Hms; reflexivity|]. split; [exact Hcy|].
      rewrite firstn_app_ge by exact Hc. rewrite Hfi, enc_script_cons, app_assoc. reflexivity.
Qed.

Theorem reader_cut_stream : forall cfg inflate ms sizes cut e,
  Forall wf_smsg ms -> length sizes = length ms -> Forall (fun n => 0 < n)%nat sizes -> e <> EOpen ->
  let masked := role_eqb (rc_role cfg) Server in
  let stream := enc_script masked ms in
  (cut < length stream)%nat ->
  let r := run cfg inflate (-1)%Z (firstn cut stream) e (read_ops sizes) in
  exists k m rest_ms, ms = firstn k ms ++ m :: rest_ms /\ length (firstn k ms) = k /\
    (fst r = expected_obs (firstn k ms) ++ [ObReader (inr (end_err_of e))]
     \/ exists d, fst r = expected_obs (firstn k ms) ++ [ObReader (inl (sm_typ m)); ObMsg d (Some (end_err_of e))] /\ is_prefix d (sm_payload m)).
Proof.
  intros cfg inflate ms sizes cut e Hw Hl Hpos _ masked stream Hcut r. subst r stream masked.
  change (role_eqb (rc_role cfg) Server) with (is_server cfg) in *. unfold run.
  destruct (cut_split (is_server cfg) ms cut Hcut) as (pre & m & post & c & Hms & Hc & Hstream).
  exists (length pre), m, post.
  assert (Hpre : firstn (length pre) ms = pre) by (rewrite Hms; apply firstn_app_exact; reflexivity).
  rewrite Hpre. split; [exact Hms|]. split; [reflexivity|].
  set (inq := firstn cut (enc_script (is_server cfg) ms)) in *.
  set (fuel := S (S (length inq))).
  destruct (split_sizes sizes pre m post ltac:(rewrite Hl, Hms; reflexivity)) as (sz1 & n & sz2 & Hsz & Hl1 & Hl2).
  rewrite Hms in Hw. apply Forall_app in Hw. destruct Hw as (Hw1 & Hw2).
  inversion Hw2 as [|m0 ms0 Hm Hw3]. subst m0 ms0.
  rewrite Hsz in Hpos. apply Forall_app in Hpos. destruct Hpos as (Hp1 & Hp2).
  inversion Hp2 as [|n0 sz0 Hn Hp3]. subst n0 sz0.
  set (tl := firstn c (enc_msg (is_server cfg) m)) in *.
  destruct (run_script_validG cfg inflate (-1)%Z e pre sz1 (OReader :: OReadAllN n :: read_ops sz2) fuel
              (r_init (-1) inq e) tl Hw1) as (s' & (I' & F' & Q' & R' & G') & RS).
  - apply Forall_forall. intros m' _. unfold lim_ok. lia.
  - exact Hl1.
  - exact Hp1.
  - apply inv_init.
  - reflexivity.
  - unfold r_init. rsimp. exact Hstream.
  - unfold r_init, fuel. rsimp. lia.
  - assert (Hfu : (length (r_inq s') < fuel)%nat).
    { rewrite I'. unfold fuel. rewrite Hstream, app_length. lia. }
    rewrite Hsz, read_ops_app. change (read_ops (n :: sz2)) with (OReader :: OReadAllN n :: read_ops sz2).
    rewrite RS.
    destruct (run_script_cut cfg inflate (-1)%Z e fuel s' m c n (read_ops sz2) Hm ltac:(lia) Hn Q' F' I' Hc Hfu) as [E|(d & E & Hd)].
    + left. destruct (run_script cfg inflate fuel (OReader :: OReadAllN n :: read_ops sz2) s' None) as [o s2].
      cbn [fst] in E |- *. rewrite E. reflexivity.
    + right. exists d. split; [|exact Hd].
      destruct (run_script cfg inflate fuel (OReader :: OReadAllN n :: read_ops sz2) s' None) as [o s2].
      cbn [fst] in E |- *. rewrite E. reflexivity.
Qed.

Print Assumptions reader_cut_stream.
