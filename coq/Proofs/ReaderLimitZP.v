(* Proofs/ReaderLimitZP.v — the READ LIMIT on streams WITH permessage-deflate, for EVERY inflater: the limit counts the
   DECOMPRESSED bytes.  On the encoding of any well-formed script in which any of the messages are compressed, with a limit
   of L bytes set before the first message: (a) if every message's decompressed size is at most L, everything is delivered as
   without a limit; (b) the first message whose decompressed size exceeds L is never reported complete: the earlier messages
   are intact, exactly the first L+1 bytes of its output are handed out, the read fails with the limit error and a Close
   frame 1009 is written — however small the message is on the wire (compression bombs). *)
From Coq Require Import List NArith Lia ZArith ZifyN ZifyNat ZifyBool Bool.
From WS Require Import Base.Words Gen.Consts Gen.CloseCode Model.Mask Model.Frame Model.Proto Model.CloseCodec Model.RefDecoder
  Model.Reader Model.Script Model.ScriptZ Proofs.MaskP Proofs.FrameP Proofs.ReaderRefP Proofs.ReaderCutP Proofs.ReaderZP.
Import ListNotations.
Open Scope N_scope.
Ltac Zify.zify_post_hook ::= Z.div_mod_to_equations.

(* ---------- what the application is to receive, message by message, with the dictionary threaded through ---------- *)
Section ZOut.
Variable inflate : bytes -> bytes -> bytes * istatus.
Variable tk : bool.

Definition zout (dict : bytes) (zm : zmsg) : bytes :=
  if zm_z zm then fst (inflate dict (sm_payload (zm_m zm) ++ c_deflateMessageTail)) else sm_payload (zm_m zm).
Definition dict_step (dict : bytes) (zm : zmsg) : bytes := if zm_z zm then next_dict tk dict (zout dict zm) else dict.
Fixpoint dict_after (dict : bytes) (ms : list zmsg) : bytes :=
  match ms with [] => dict | zm :: r => dict_after (dict_step dict zm) r end.
Fixpoint zouts (dict : bytes) (ms : list zmsg) : list bytes :=
  match ms with [] => [] | zm :: r => zout dict zm :: zouts (dict_step dict zm) r end.

Lemma zout_flate dict zm out st : zm_z zm = true -> inflate dict (sm_payload (zm_m zm) ++ c_deflateMessageTail) = (out, st) ->
  zout dict zm = out /\ dict_step dict zm = next_dict tk dict out.
Proof. intros H E. unfold dict_step, zout. rewrite H, E. split; reflexivity. Qed.
Lemma zout_plain dict zm : zm_z zm = false -> zout dict zm = sm_payload (zm_m zm) /\ dict_step dict zm = dict.
Proof. intros H. unfold dict_step, zout. rewrite H. split; reflexivity. Qed.

Lemma all_inflate_ok_app : forall a b dict, all_inflate_ok inflate tk dict (a ++ b) = true ->
  all_inflate_ok inflate tk dict a = true /\ all_inflate_ok inflate tk (dict_after dict a) b = true.
Proof.
  induction a as [|zm a IH]; intros b dict H; [split; [reflexivity|exact H]|].
  cbn [app all_inflate_ok dict_after] in *. unfold dict_step, zout.
  destruct (zm_z zm).
  - destruct (inflate dict (sm_payload (zm_m zm) ++ c_deflateMessageTail)) as [out st]. cbn [fst].
    destruct st; try discriminate; apply IH; exact H.
  - apply IH; exact H.
Qed.
End ZOut.

Lemma enc_zscript_app m a b : enc_zscript m (a ++ b) = enc_zscript m a ++ enc_zscript m b.
Proof. unfold enc_zscript. rewrite map_app, concat_app. reflexivity. Qed.

Lemma firstn_split_at {A} (l : list A) c k : (length (firstn c l) <= k)%nat ->
  firstn k l = firstn c l ++ firstn (k - length (firstn c l)) (skipn (length (firstn c l)) l).
Proof. intro H. rewrite <- (firstn_skipn c l) at 1. rewrite firstn_app_ge by exact H. rewrite skipn_firstn_len. reflexivity. Qed.

(* ---------- field-level invariant: open, limit [lim] stored, no Close written, compression state z ---------- *)
Definition invL (lim : Z) (z : zst) (s : rst) : Prop :=
  r_closed s = false /\ zof s = z /\ r_limit s = lim /\ r_close_sent s = false.

Section LimZ.
Variable cfg : rcfg.
Variable inflate : bytes -> bytes -> bytes * istatus.
Variable lim : Z.
Local Notation M := (is_server cfg).
Local Notation TK := (rd_takeover cfg).
Local Notation Inv := (invL lim).

(* ---------- L1: readLoop handles the control frames and returns the data header ---------- *)
Lemma read_loop_ctls_L : forall cs fuel s z rsv fin opc k n tl,
  Forall wf_ctl cs -> (opc = 0 \/ opc = 1 \/ opc = 2) -> (rsv = true -> flate_on cfg = true /\ (opc = 1 \/ opc = 2)) ->
  N.of_nat n < 9223372036854775808 -> wf_key k ->
  Inv z s ->
  r_inq s = concat (map (enc_ctl M) cs) ++ enc_hdr (mk_hdr_z rsv M fin opc k n) ++ tl ->
  (length (r_inq s) < fuel)%nat ->
  exists s', read_loop cfg fuel s = Ok (mk_hdr_z rsv M fin opc k n) s' /\
    r_inq s' = tl /\ Inv z s' /\ r_fin s' = r_fin s /\ r_plen s' = r_plen s /\ r_key s' = r_key s /\ r_lrn s' = r_lrn s /\
    r_replies s' = r_replies s ++ pw cs /\ r_pongs s' = r_pongs s ++ pn cs.
Proof.
  induction cs as [|c cs IH]; intros fuel s z rsv fin opc k n tl Hcs Ho Hrsv Hn Hk Hq Hi Hfu.
  - destruct fuel as [|fuel]; [lia|]. cbn [read_loop]. cbn [map concat app] in Hi.
    destruct Hq as (Hc & Hz & Hlim & Hsent). subst z.
    assert (Hrs : rsv && (negb (flate_on cfg) || negb (is_data_first opc)) = false).
    { destruct rsv; [|reflexivity]. destruct (Hrsv eq_refl) as (Hfo & [E|E]); rewrite Hfo, E; reflexivity. }
    unfold read_hdr. rewrite Hc, Hi.
    rewrite dec_enc by (apply mk_hdr_z_wf; auto; lia).
    cbn [h_rsv1 h_rsv2 h_rsv3 h_masked h_opc mk_hdr_z]. rewrite Hrs. cbn [orb].
    destruct M; cbn [negb andb orb].
    + exists (set_inq s tl). split.
      * destruct Ho as [-> | [-> | ->]]; reflexivity.
      * zsimp. unfold invL. zsimp. cbn [pw pn flat_map]. rewrite !app_nil_r. repeat split; auto.
    + exists (set_inq s tl). split.
      * destruct Ho as [-> | [-> | ->]]; reflexivity.
      * zsimp. unfold invL. zsimp. cbn [pw pn flat_map]. rewrite !app_nil_r. repeat split; auto.
  - destruct fuel as [|fuel]; [lia|]. cbn [read_loop].
    inversion Hcs as [|c0 cs0 Hc0 Hcs']. subst c0 cs0.
    destruct Hc0 as (Hopc & Hpw & Hpl & Hck).
    cbn [map concat] in Hi. unfold enc_ctl at 1 in Hi. rewrite enc_frame_mk in Hi. rewrite <- !app_assoc in Hi.
    destruct Hq as (Hc & Hz & Hlim & Hsent).
    unfold read_hdr. rewrite Hc, Hi.
    rewrite dec_enc by (apply mk_hdr_wf; [destruct Hopc as [E|E]; rewrite E; lia | lia | exact Hck]).
    set (rest := concat (map (enc_ctl M) cs) ++ enc_hdr (mk_hdr_z rsv M fin opc k n) ++ tl) in *.
    assert (HC : exists s2, handle_control (set_inq s (wire M (c_key c) (c_payload c) ++ rest))
                    (mk_hdr M true (c_opc c) (c_key c) (length (c_payload c))) = Ok tt s2 /\
                 r_inq s2 = rest /\ Inv z s2 /\ r_fin s2 = r_fin s /\ r_plen s2 = r_plen s /\ r_key s2 = r_key s /\ r_lrn s2 = r_lrn s /\
                 r_replies s2 = r_replies s ++ pw [c] /\ r_pongs s2 = r_pongs s ++ pn [c]).
    { unfold handle_control. cbn [h_plen h_fin h_masked h_key h_opc mk_hdr negb].
      destruct (N.ltb_spec 125 (N.of_nat (length (c_payload c)))) as [Hbad|_]; [lia|].
      rewrite Nat2N.id. rewrite <- (wire_length M (c_key c) (c_payload c)).
      rewrite (read_payload_app _ (wire M (c_key c) (c_payload c)) rest) by (zsimp; auto).
      assert (EP : (if M then mask_spec (if M then c_key c else zero_key) (wire M (c_key c) (c_payload c)) else wire M (c_key c) (c_payload c)) = c_payload c).
      { destruct M; cbn [wire]; [apply mask_involution | reflexivity]. }
      rewrite EP. cbn [pw pn flat_map]. rewrite !app_nil_r. subst z.
      destruct Hopc as [E9 | E10]; rewrite E9 || rewrite E10.
      - change (9 =? 9) with true. change (9 =? 10) with false. cbv iota.
        eexists. split; [reflexivity|]. rewrite add_pong_reply. unfold invL. zsimp. rewrite Hsent, app_nil_r. cbn [orb].
        repeat split; auto.
      - change (10 =? 9) with false. change (10 =? 10) with true. cbv iota.
        eexists. split; [reflexivity|]. unfold invL. zsimp. rewrite app_nil_r. repeat split; auto. }
    destruct HC as (s2 & HC & I2 & Q2 & F2 & P2 & K2 & N2 & R2 & G2).
    cbn [h_rsv1 h_rsv2 h_rsv3 h_masked h_opc mk_hdr andb orb].
    assert (Hctl : ((c_opc c =? 8) || (c_opc c =? 9) || (c_opc c =? 10)) = true).
    { destruct Hopc as [-> | ->]; reflexivity. }
    destruct (IH fuel s2 z rsv fin opc k n tl Hcs' Ho Hrsv Hn Hk Q2) as (s' & RL & I' & Q' & F' & P' & K' & N' & R' & G').
    { rewrite I2. reflexivity. }
    { rewrite I2. rewrite Hi in Hfu. rewrite !app_length in Hfu. pose proof (enc_hdr_len2 (mk_hdr M true (c_opc c) (c_key c) (length (c_payload c)))). fold rest in Hfu. lia. }
    exists s'. split.
    + destruct M; cbn [negb andb orb]; rewrite Hctl; rewrite HC; exact RL.
    + split; [exact I'|]. split; [exact Q'|]. split; [congruence|]. split; [congruence|]. split; [congruence|]. split; [congruence|].
      split.
      * rewrite R', R2. change (c :: cs) with ([c] ++ cs). rewrite pw_app, app_assoc. reflexivity.
      * rewrite G', G2. change (c :: cs) with ([c] ++ cs). rewrite pn_app, app_assoc. reflexivity.
Qed.

(* ---------- state descriptor: b = unread (unmasked) bytes of the current fragment, fs = fragments still to come ---------- *)
Definition at_posL (z : zst) (s : rst) (b : bytes) (fs : list frag) (tl : bytes) : Prop :=
  r_inq s = wire M (r_key s) b ++ enc_rest M fs ++ tl /\ r_plen s = N.of_nat (length b) /\ r_fin s = is_nil fs /\
  Forall wf_frag fs /\ Inv z s.

Definition finalL (z : zst) (s' : rst) (tl : bytes) (rp : list reply) (pg : list bytes) : Prop :=
  r_inq s' = tl /\ r_fin s' = true /\ Inv z s' /\ r_replies s' = rp /\ r_pongs s' = pg.

Lemma at_posL_sub_lrn z s b fs tl k : at_posL z s b fs tl -> at_posL z (sub_lrn s k) b fs tl.
Proof. intro H. exact H. Qed.
Lemma finalL_sub_lrn z s tl rp pg k : finalL z s tl rp pg -> finalL z (sub_lrn s k) tl rp pg.
Proof. intro H. exact H. Qed.

(* ---------- one msgReader.read call on the raw payload stream (compressed or not): the allowance is not touched ---------- *)
Definition zstep_data (z : zst) (res : bytes * option rerr * bool * rst) (s : rst) (b : bytes) (fs : list frag) (tl : bytes) (n : nat) : Prop :=
  exists d b' fs' s', res = (d, None, false, s') /\ d <> [] /\ (length d <= n)%nat /\
       d ++ b' ++ bodies fs' = b ++ bodies fs /\ at_posL z s' b' fs' tl /\ r_lrn s' = r_lrn s /\
       r_replies s' ++ pw (ctls fs') = r_replies s ++ pw (ctls fs) /\
       r_pongs s' ++ pn (ctls fs') = r_pongs s ++ pn (ctls fs) /\
       (length (r_inq s') < length (r_inq s))%nat.
Definition zstep_eof (z : zst) (res : bytes * option rerr * bool * rst) (s : rst) (b : bytes) (fs : list frag) (tl : bytes) : Prop :=
  exists s', res = ([], None, true, s') /\ b = [] /\ bodies fs = [] /\ r_lrn s' = r_lrn s /\
       finalL z s' tl (r_replies s ++ pw (ctls fs)) (r_pongs s ++ pn (ctls fs)).

Lemma raw_read_stepL : forall fuel z s b fs tl n, (0 < n)%nat -> at_posL z s b fs tl -> (length (r_inq s) < fuel)%nat ->
  zstep_data z (raw_read cfg fuel n s) s b fs tl n \/ zstep_eof z (raw_read cfg fuel n s) s b fs tl.
Proof.
  induction fuel as [|fuel IH]; intros z s b fs tl n Hn (Hi & Hp & Hf & Hw & Hq) Hfu; [lia|].
  destruct b as [|x b0].
  - cbn [length] in Hp. cbn [raw_read]. destruct (N.eqb_spec (r_plen s) 0) as [_|Hne]; [|lia].
    rewrite wire_nil in Hi. cbn [app] in Hi.
    destruct fs as [|f r].
    + right. cbn [is_nil] in Hf. rewrite Hf. exists s. cbn [enc_rest app] in Hi.
      split; [reflexivity|]. split; [reflexivity|]. split; [reflexivity|]. split; [reflexivity|].
      unfold finalL, ctls. cbn [map concat pw pn flat_map]. rewrite !app_nil_r. auto 10.
    + cbn [is_nil] in Hf. rewrite Hf. cbn [negb].
      cbn [enc_rest] in Hi. unfold enc_frag in Hi. rewrite enc_frame_mk in Hi. rewrite <- !app_assoc in Hi.
      inversion Hw as [|f0 r0 Hwf Hwr]. subst f0 r0.
      destruct Hwf as (Hcs & Hbw & Hbl & Hkw).
      assert (Hnr : false = true -> flate_on cfg = true /\ (0 = 1 \/ 0 = 2)) by discriminate.
      change (mk_hdr M (is_nil r) 0 (fr_key f) (length (fr_body f))) with (mk_hdr_z false M (is_nil r) 0 (fr_key f) (length (fr_body f))) in Hi.
      destruct (read_loop_ctls_L (fr_ctl f) (S fuel) s z false (is_nil r) 0 (fr_key f) (length (fr_body f))
                  (wire M (fr_key f) (fr_body f) ++ enc_rest M r ++ tl) Hcs (or_introl eq_refl) Hnr Hbl Hkw Hq Hi Hfu)
        as (s1 & RL & I1 & Q1 & F1 & P1 & K1 & N1 & R1 & G1).
      rewrite RL. cbn [h_opc mk_hdr_z]. change (0 =? 0) with true. cbn [negb].
      set (h := mk_hdr_z false M (is_nil r) 0 (fr_key f) (length (fr_body f))) in *.
      set (s2 := set_frame s1 h).
      assert (A2 : at_posL z s2 (fr_body f) r tl).
      { unfold at_posL, invL, s2, h. zsimp. rewrite wire_key. destruct Q1 as (Q1a & Q1b & Q1c & Q1d). repeat split; auto. }
      assert (L0 : (length (r_inq s2) + 2 <= length (r_inq s))%nat).
      { unfold s2. zsimp. rewrite I1, Hi. rewrite !app_length. pose proof (enc_hdr_len2 h). lia. }
      assert (L2 : (length (r_inq s2) < fuel)%nat) by lia.
      assert (R2 : r_replies s2 = r_replies s ++ pw (fr_ctl f)) by (unfold s2; zsimp; exact R1).
      assert (G2 : r_pongs s2 = r_pongs s ++ pn (fr_ctl f)) by (unfold s2; zsimp; exact G1).
      assert (N2 : r_lrn s2 = r_lrn s) by (unfold s2; zsimp; exact N1).
      destruct (IH z s2 (fr_body f) r tl n Hn A2 L2) as [(d & b' & fs' & s' & E & Hd & Hdn & Hc & Ha & Hlr & Hr & Hg & Hl)|(s' & E & Eb & Er & Hlr & Fi)].
      * left. exists d, b', fs', s'. split; [exact E|]. split; [exact Hd|]. split; [exact Hdn|].
        split; [unfold bodies at 2; cbn [map concat app]; exact Hc|]. split; [exact Ha|].
        split; [congruence|].
        split; [|split].
        -- rewrite Hr, R2. unfold ctls at 2. cbn [map concat]. rewrite pw_app, app_assoc. reflexivity.
        -- rewrite Hg, G2. unfold ctls at 2. cbn [map concat]. rewrite pn_app, app_assoc. reflexivity.
        -- lia.
      * right. exists s'. split; [exact E|]. split; [reflexivity|].
        split; [unfold bodies; cbn [map concat]; rewrite Eb; exact Er|]. split; [congruence|].
        rewrite R2, G2 in Fi. unfold ctls at 1 2. cbn [map concat]. rewrite pw_app, pn_app, !app_assoc. exact Fi.
  - left. set (bb := x :: b0) in *.
    assert (Hbl : (1 <= length bb)%nat) by (unfold bb; cbn [length]; lia).
    set (k := Nat.min n (length bb)).
    assert (Hk : (if N.of_nat n <? r_plen s then n else N.to_nat (r_plen s)) = k).
    { rewrite Hp. unfold k. destruct (N.ltb_spec (N.of_nat n) (N.of_nat (length bb))); lia. }
    set (b1 := firstn k bb). set (b2 := skipn k bb).
    assert (Hb : bb = b1 ++ b2) by (symmetry; apply firstn_skipn).
    assert (Hl1 : length b1 = k) by (unfold b1; rewrite firstn_length; unfold k; lia).
    assert (Hl2 : (length bb = k + length b2)%nat) by (rewrite Hb at 1; rewrite app_length; lia).
    destruct Hq as (Hc & Hz & Hlim & Hsent).
    rewrite Hb, wire_app, <- app_assoc, Hl1 in Hi.
    set (key' := if M then rotk (r_key s) k else r_key s) in *.
    set (rest := wire M key' b2 ++ enc_rest M fs ++ tl) in *.
    assert (RR : raw_read cfg (S fuel) n s = (b1, None, false, sub_plen (set_inq s rest) k key')).
    { cbn [raw_read]. destruct (N.eqb_spec (r_plen s) 0) as [E0|_]; [lia|].
      cbv zeta. rewrite Hk.
      replace k with (length (wire M (r_key s) b1)) at 1 by (rewrite wire_length; exact Hl1).
      rewrite (read_payload_app s _ rest Hc Hi). rewrite unwire, wire_length, Hl1. reflexivity. }
    exists b1, b2, fs. eexists. split; [exact RR|].
    split; [intro E; rewrite E in Hl1; cbn [length] in Hl1; lia|].
    split; [rewrite Hl1; unfold k; lia|].
    split; [rewrite app_assoc, <- Hb; reflexivity|].
    split; [|split; [reflexivity|split; [reflexivity|split; [reflexivity|]]]].
    + unfold at_posL, invL. zsimp. split; [reflexivity|]. split; [lia|]. repeat split; auto.
    + zsimp. rewrite Hi. assert (Hk1 : (1 <= k)%nat) by (unfold k; lia). rewrite !app_length, !wire_length. lia.
Qed.

(* ---------- an UNCOMPRESSED message within the allowance ---------- *)
Definition zstepM_data (z : zst) (res : bytes * option rerr * bool * rst) (s : rst) (b : bytes) (fs : list frag) (tl : bytes) : Prop :=
  exists d b' fs' s', res = (d, None, false, s') /\ d <> [] /\
       d ++ b' ++ bodies fs' = b ++ bodies fs /\ at_posL z s' b' fs' tl /\ lrn_ok s' (length (b' ++ bodies fs')) /\
       r_replies s' ++ pw (ctls fs') = r_replies s ++ pw (ctls fs) /\
       r_pongs s' ++ pn (ctls fs') = r_pongs s ++ pn (ctls fs) /\
       (length (r_inq s') < length (r_inq s))%nat.
Definition zstepM_eof (z : zst) (res : bytes * option rerr * bool * rst) (s : rst) (b : bytes) (fs : list frag) (tl : bytes) : Prop :=
  exists s', res = ([], None, true, s') /\ b = [] /\ bodies fs = [] /\
       finalL z s' tl (r_replies s ++ pw (ctls fs)) (r_pongs s ++ pn (ctls fs)).

Lemma msg_read_stepL : forall fuel z s b fs tl n, z_flate z = false -> (0 < n)%nat -> at_posL z s b fs tl ->
  lrn_ok s (length (b ++ bodies fs)) -> (length (r_inq s) < fuel)%nat ->
  zstepM_data z (msg_read cfg inflate fuel n s) s b fs tl \/ zstepM_eof z (msg_read cfg inflate fuel n s) s b fs tl.
Proof.
  intros fuel z s b fs tl n Hzf Hn Ha Hok Hfu.
  pose proof Ha as (_ & _ & _ & _ & Hc & Hz & Hlim & Hsent).
  assert (Hfl : r_flate s = false) by (rewrite <- Hzf, <- Hz; reflexivity).
  rewrite msg_read_raw by (auto; unfold lrn_ok in Hok; lia).
  pose proof (capped_pos s n Hn) as Hn'. pose proof (capped_le_n s n) as Hn''.
  destruct (raw_read_stepL fuel z s b fs tl (capped s n) Hn' Ha Hfu) as [(d & b' & fs' & s' & E & Hd & Hdn & Hcc & Ha' & Hlr & Hr & Hg & Hl)|(s' & E & Eb & Er & Hlr & Fi)].
  - left. rewrite E. cbv beta iota zeta.
    assert (Hlen : (length d + length (b' ++ bodies fs') = length (b ++ bodies fs))%nat) by (rewrite <- app_length, Hcc; reflexivity).
    assert (Hh : limit_hit s (length d) = false).
    { unfold limit_hit. unfold lrn_ok in Hok. destruct (Z.leb_spec 0 (r_lrn s)); destruct (Z.leb_spec (r_lrn s - Z.of_nat (length d)) 0); cbn [andb]; try reflexivity; lia. }
    rewrite Hh. exists d, b', fs', (sub_lrn s' (length d)). split; [reflexivity|]. split; [exact Hd|]. split; [exact Hcc|].
    split; [apply at_posL_sub_lrn; exact Ha'|].
    split; [unfold lrn_ok in *; rewrite sub_lrn_lrn, Hlr; destruct (Z.ltb_spec (r_lrn s) 0); lia|].
    cbn [sub_lrn r_replies r_pongs r_inq]. auto.
  - right. rewrite E. cbv beta iota zeta.
    assert (Hh : limit_hit s (length (@nil N)) = false).
    { unfold limit_hit. unfold lrn_ok in Hok. cbn [length]. destruct (Z.leb_spec 0 (r_lrn s)); destruct (Z.leb_spec (r_lrn s - Z.of_nat 0) 0); cbn [andb]; try reflexivity; lia. }
    rewrite Hh. exists (sub_lrn s' (length (@nil N))). split; [reflexivity|]. split; [exact Eb|]. split; [exact Er|].
    apply finalL_sub_lrn. exact Fi.
Qed.

Lemma read_all_restL : forall fuel z s b fs tl n racc, z_flate z = false -> (0 < n)%nat -> at_posL z s b fs tl ->
  lrn_ok s (length (b ++ bodies fs)) -> (length (r_inq s) < fuel)%nat ->
  exists s', read_all cfg inflate fuel n s racc = (concat (frev racc) ++ b ++ bodies fs, None, s') /\
     finalL z s' tl (r_replies s ++ pw (ctls fs)) (r_pongs s ++ pn (ctls fs)).
Proof.
  induction fuel as [|fuel IH]; intros z s b fs tl n racc Hzf Hn Ha Hok Hfu; [lia|].
  cbn [read_all].
  destruct (msg_read_stepL (S (S fuel)) z s b fs tl n Hzf Hn Ha Hok ltac:(lia)) as [(d & b' & fs' & s' & E & Hd & Hc & Ha' & Hok' & Hr & Hg & Hl)|(s' & E & Eb & Er & Fi)].
  - rewrite E. destruct (IH z s' b' fs' tl n (d :: racc) Hzf Hn Ha' Hok' ltac:(lia)) as (s'' & E' & Fi).
    exists s''. rewrite E'. split.
    + rewrite frev_cons, <- app_assoc, Hc. reflexivity.
    + rewrite <- Hr, <- Hg. exact Fi.
  - rewrite E. exists s'. split; [|exact Fi]. rewrite frev_cons, Eb, Er. reflexivity.
Qed.

Lemma read_all_z_restL : forall fuel z s b fs tl n racc, z_flate z = false -> (0 < n)%nat -> at_posL z s b fs tl ->
  lrn_ok s (length (b ++ bodies fs)) -> (length (r_inq s) < fuel)%nat ->
  exists s', read_all_z cfg inflate fuel n s racc = (concat (frev racc) ++ b ++ bodies fs, None, s') /\
     finalL z s' tl (r_replies s ++ pw (ctls fs)) (r_pongs s ++ pn (ctls fs)).
Proof.
  intros fuel z s b fs tl n racc Hzf Hn Ha Hok Hfu. unfold read_all_z.
  destruct (msg_read_stepL fuel z s b fs tl n Hzf Hn Ha Hok Hfu) as [(d & b' & fs' & s' & E & Hd & Hc & Ha' & Hok' & Hr & Hg & Hl)|(s' & E & Eb & Er & Fi)].
  - rewrite E. destruct (read_all_restL (length (r_zout s') + fuel) z s' b' fs' tl n (d :: racc) Hzf Hn Ha' Hok' ltac:(lia)) as (s'' & E' & Fi).
    exists s''. rewrite E'. split.
    + rewrite frev_cons, <- app_assoc, Hc. reflexivity.
    + rewrite <- Hr, <- Hg. exact Fi.
  - rewrite E. exists s'. split; [|exact Fi]. rewrite frev_cons, Eb, Er. reflexivity.
Qed.

(* ---------- an UNCOMPRESSED message that exceeds the allowance ---------- *)
Definition zstepX_hit (res : bytes * option rerr * bool * rst) (s : rst) (all : bytes) : Prop :=
  exists s', res = (firstn (Z.to_nat (r_lrn s)) all, Some RELimit, false, s') /\
     exists rs, r_replies s' = rs ++ [RpClose c_StatusMessageTooBig None].
Definition zstepX_data (z : zst) (res : bytes * option rerr * bool * rst) (s : rst) (b : bytes) (fs : list frag) (tl : bytes) : Prop :=
  exists d b' fs' s', res = (d, None, false, s') /\
       d ++ b' ++ bodies fs' = b ++ bodies fs /\ at_posL z s' b' fs' tl /\ (0 < r_lrn s')%Z /\ r_lrn s' = (r_lrn s - Z.of_nat (length d))%Z /\
       (length (r_inq s') < length (r_inq s))%nat.

Lemma msg_read_limitL : forall fuel z s b fs tl n, z_flate z = false -> (0 < n)%nat -> at_posL z s b fs tl ->
  (0 < r_lrn s)%Z -> (r_lrn s <= Z.of_nat (length (b ++ bodies fs)))%Z -> (length (r_inq s) < fuel)%nat ->
  zstepX_hit (msg_read cfg inflate fuel n s) s (b ++ bodies fs) \/ zstepX_data z (msg_read cfg inflate fuel n s) s b fs tl.
Proof.
  intros fuel z s b fs tl n Hzf Hn Ha Hpos Hle Hfu.
  pose proof Ha as (_ & _ & _ & _ & Hc & Hz & Hlim & Hsent).
  assert (Hfl : r_flate s = false) by (rewrite <- Hzf, <- Hz; reflexivity).
  rewrite msg_read_raw by (auto; lia).
  pose proof (capped_pos s n Hn) as Hn'. pose proof (capped_le s n ltac:(lia)) as Hcap.
  destruct (raw_read_stepL fuel z s b fs tl (capped s n) Hn' Ha Hfu) as [(d & b' & fs' & s' & E & Hd & Hdn & Hcc & Ha' & Hlr & Hr & Hg & Hl)|(s' & E & Eb & Er & Hlr & Fi)].
  - rewrite E. cbv beta iota zeta.
    assert (Hlen : (length d + length (b' ++ bodies fs') = length (b ++ bodies fs))%nat) by (rewrite <- app_length, Hcc; reflexivity).
    assert (Hdl : (Z.of_nat (length d) <= r_lrn s)%Z) by lia.
    unfold limit_hit. destruct (Z.leb_spec 0 (r_lrn s)) as [_|Hx]; [|lia]. cbn [andb].
    destruct (Z.leb_spec (r_lrn s - Z.of_nat (length d)) 0) as [Hhit|Hno].
    + left. eexists. split.
      * assert (Ed : d = firstn (Z.to_nat (r_lrn s)) (b ++ bodies fs)).
        { rewrite <- Hcc. replace (Z.to_nat (r_lrn s)) with (length d) by lia. rewrite firstn_app_exact by reflexivity. reflexivity. }
        rewrite <- Ed. reflexivity.
      * exists (r_replies s'). rewrite write_error_replies; [reflexivity|].
        destruct Ha' as (_ & _ & _ & _ & _ & _ & _ & Hs'). exact Hs'.
    + right. exists d, b', fs', (sub_lrn s' (length d)). split; [reflexivity|]. split; [exact Hcc|].
      split; [apply at_posL_sub_lrn; exact Ha'|].
      assert (EL : r_lrn (sub_lrn s' (length d)) = (r_lrn s - Z.of_nat (length d))%Z).
      { rewrite sub_lrn_lrn, Hlr. destruct (Z.ltb_spec (r_lrn s) 0); [lia|reflexivity]. }
      split; [lia|]. split; [exact EL|]. cbn [sub_lrn r_inq]. exact Hl.
  - exfalso. rewrite Eb, Er in Hle. cbn [app length] in Hle. lia.
Qed.

Lemma read_all_limitL : forall fuel z s b fs tl n racc, z_flate z = false -> (0 < n)%nat -> at_posL z s b fs tl ->
  (0 < r_lrn s)%Z -> (r_lrn s <= Z.of_nat (length (b ++ bodies fs)))%Z -> (length (r_inq s) < fuel)%nat ->
  exists s', read_all cfg inflate fuel n s racc = (concat (frev racc) ++ firstn (Z.to_nat (r_lrn s)) (b ++ bodies fs), Some RELimit, s') /\
     exists rs, r_replies s' = rs ++ [RpClose c_StatusMessageTooBig None].
Proof.
  induction fuel as [|fuel IH]; intros z s b fs tl n racc Hzf Hn Ha Hpos Hle Hfu; [lia|].
  cbn [read_all].
  destruct (msg_read_limitL (S (S fuel)) z s b fs tl n Hzf Hn Ha Hpos Hle ltac:(lia)) as [(s' & E & Hrs)|(d & b' & fs' & s' & E & Hc & Ha' & Hpos' & EL & Hl)].
  - rewrite E. exists s'. split; [|exact Hrs]. rewrite frev_cons. reflexivity.
  - rewrite E.
    assert (Hlen : (length d + length (b' ++ bodies fs') = length (b ++ bodies fs))%nat) by (rewrite <- app_length, Hc; reflexivity).
    destruct (IH z s' b' fs' tl n (d :: racc) Hzf Hn Ha' Hpos' ltac:(lia) ltac:(lia)) as (s'' & E' & Hrs).
    exists s''. rewrite E'. split; [|exact Hrs].
    rewrite frev_cons, <- app_assoc. rewrite <- Hc.
    rewrite (firstn_app_ge d (b' ++ bodies fs')) by lia.
    replace (Z.to_nat (r_lrn s) - length d)%nat with (Z.to_nat (r_lrn s')) by lia. reflexivity.
Qed.

Lemma read_all_z_limitL : forall fuel z s b fs tl n racc, z_flate z = false -> (0 < n)%nat -> at_posL z s b fs tl ->
  (0 < r_lrn s)%Z -> (r_lrn s <= Z.of_nat (length (b ++ bodies fs)))%Z -> (length (r_inq s) < fuel)%nat ->
  exists s', read_all_z cfg inflate fuel n s racc = (concat (frev racc) ++ firstn (Z.to_nat (r_lrn s)) (b ++ bodies fs), Some RELimit, s') /\
     exists rs, r_replies s' = rs ++ [RpClose c_StatusMessageTooBig None].
Proof.
  intros fuel z s b fs tl n racc Hzf Hn Ha Hpos Hle Hfu. unfold read_all_z.
  destruct (msg_read_limitL fuel z s b fs tl n Hzf Hn Ha Hpos Hle Hfu) as [(s' & E & Hrs)|(d & b' & fs' & s' & E & Hc & Ha' & Hpos' & EL & Hl)].
  - rewrite E. exists s'. split; [|exact Hrs]. rewrite frev_cons. reflexivity.
  - rewrite E.
    assert (Hlen : (length d + length (b' ++ bodies fs') = length (b ++ bodies fs))%nat) by (rewrite <- app_length, Hc; reflexivity).
    destruct (read_all_limitL (length (r_zout s') + fuel) z s' b' fs' tl n (d :: racc) Hzf Hn Ha' Hpos' ltac:(lia) ltac:(lia)) as (s'' & E' & Hrs).
    exists s''. rewrite E'. split; [|exact Hrs].
    rewrite frev_cons, <- app_assoc. rewrite <- Hc.
    rewrite (firstn_app_ge d (b' ++ bodies fs')) by lia.
    replace (Z.to_nat (r_lrn s) - length d)%nat with (Z.to_nat (r_lrn s')) by lia. reflexivity.
Qed.

(* ---------- a COMPRESSED message: the eager pull gets exactly the rest of the raw payload; it is NOT counted ---------- *)
Lemma pull_all_restL : forall fuel z s b fs tl racc, at_posL z s b fs tl -> (length (r_inq s) < fuel)%nat ->
  exists s', pull_all cfg fuel s racc = (concat (frev racc) ++ b ++ bodies fs, None, s') /\ r_lrn s' = r_lrn s /\
     finalL z s' tl (r_replies s ++ pw (ctls fs)) (r_pongs s ++ pn (ctls fs)).
Proof.
  induction fuel as [|fuel IH]; intros z s b fs tl racc Ha Hfu; [lia|].
  cbn [pull_all].
  destruct (raw_read_stepL (S (S fuel)) z s b fs tl bufio_size bufio_pos Ha ltac:(lia)) as [(d & b' & fs' & s' & E & Hd & Hdn & Hc & Ha' & Hlr & Hr & Hg & Hl)|(s' & E & Eb & Er & Hlr & Fi)].
  - rewrite E. destruct (IH z s' b' fs' tl (d :: racc) Ha' ltac:(lia)) as (s'' & E' & Hlr' & Fi).
    exists s''. rewrite E'. split; [|split].
    + rewrite frev_cons, <- app_assoc, Hc. reflexivity.
    + congruence.
    + rewrite <- Hr, <- Hg. exact Fi.
  - rewrite E. exists s'. split; [|split; [exact Hlr|exact Fi]]. rewrite Eb, Er. cbn [app]. rewrite app_nil_r. reflexivity.
Qed.

(* the first Read of a compressed message: pull, inflate once, then behave as on the pulled state *)
Lemma msg_read_unpulledL : forall fuel n s zz s0 out st, r_closed s = false -> r_flate s = true -> r_zpulled s = false -> r_lrn s <> 0%Z ->
  pull_all cfg fuel s [] = (zz, None, s0) -> r_closed s0 = false -> r_lrn s0 = r_lrn s -> r_flate s0 = true ->
  inflate (r_dict s) (zz ++ c_deflateMessageTail) = (out, st) ->
  msg_read cfg inflate fuel n s = msg_read cfg inflate fuel n (set_z s0 out (st_err st)).
Proof.
  intros fuel n s zz s0 out st Hc Hfl Hzp Hnz Hpull Hc0 Hl0 Hfl0 Hinf. unfold msg_read, limit_hit.
  cbn [set_z r_closed r_lrn r_flate r_zpulled]. rewrite Hc, Hc0, Hl0, Hfl, Hfl0, Hzp, Hpull, Hinf.
  destruct (Z.eqb_spec (r_lrn s) 0) as [E0|_]; [contradiction|].
  destruct st; reflexivity.
Qed.

Lemma msg_read_pulledL : forall fuel n s, r_closed s = false -> r_flate s = true -> r_zpulled s = true -> r_lrn s <> 0%Z ->
  msg_read cfg inflate fuel n s =
  match r_zout s with
  | [] => match r_zerr s with None => ([], None, true, end_z cfg s (r_zall s)) | Some err => ([], Some err, false, s) end
  | _ :: _ => let d := firstn (capped s n) (r_zout s) in
              if limit_hit s (length d) then (d, Some RELimit, false, write_error (take_z s (length d)) c_StatusMessageTooBig)
              else (d, None, false, take_z s (length d))
  end.
Proof. intros fuel n s Hc Hfl Hzp Hl. unfold msg_read, capped. rewrite Hc.
  destruct (Z.eqb_spec (r_lrn s) 0) as [E0|_]; [contradiction|]. rewrite Hfl, Hzp. reflexivity. Qed.

Lemma finalL_set_z z s tl rp pg out ze : z_flate z = true -> finalL z s tl rp pg ->
  finalL (zh out ze out (z_dict z)) (set_z s out ze) tl rp pg.
Proof. intros Hzf (Hi & Hf & (Hc & Hz & Hlim & Hsent) & Hr & Hg). subst z. unfold finalL, invL. zsimp. repeat split; auto.
  unfold zof, zh. zsimp. cbn [zof z_flate] in Hzf. rewrite Hzf. reflexivity. Qed.

Lemma finalL_take_z zo ze za dc s tl rp pg k : finalL (zh zo ze za dc) s tl rp pg ->
  finalL (zh (skipn k zo) ze za dc) (take_z s k) tl rp pg.
Proof. intros (Hi & Hf & (Hc & Hz & Hlim & Hsent) & Hr & Hg). unfold zof, zh in Hz. injection Hz as Hfl Hzp Hzo Hze Hza Hdc.
  unfold finalL, invL. zsimp. repeat split; auto.
  unfold zof, zh. zsimp. rewrite Hfl, Hzp, Hzo, Hze, Hza, Hdc. reflexivity. Qed.

Lemma finalL_end_z zo za dc s tl rp pg : finalL (zh zo None za dc) s tl rp pg ->
  finalL (zh zo None [] (next_dict TK dc za)) (end_z cfg s za) tl rp pg.
Proof. intros (Hi & Hf & (Hc & Hz & Hlim & Hsent) & Hr & Hg). unfold zof, zh in Hz. injection Hz as Hfl Hzp Hzo Hze Hza Hdc.
  unfold finalL, invL, end_z. zsimp. repeat split; auto.
  unfold zof, zh, next_dict. zsimp. rewrite Hfl, Hzp, Hzo, Hze, Hdc. reflexivity. Qed.

Lemma take_z_lrn s k : r_lrn (take_z s k) = if (r_lrn s <? 0)%Z then r_lrn s else (r_lrn s - Z.of_nat k)%Z.
Proof. reflexivity. Qed.

(* ---------- one Read on the pulled state ---------- *)
Lemma hstep_end : forall fuel n s ze za dc tl rp pg, finalL (zh [] ze za dc) s tl rp pg -> r_lrn s <> 0%Z ->
  msg_read cfg inflate fuel n s = match ze with None => ([], None, true, end_z cfg s za) | Some err => ([], Some err, false, s) end.
Proof.
  intros fuel n s ze za dc tl rp pg (Hi & Hf & (Hc & Hz & Hlim & Hsent) & Hr & Hg) Hl.
  unfold zof, zh in Hz. injection Hz as Hfl Hzp Hzo Hze Hza Hdc.
  rewrite (msg_read_pulledL fuel n s Hc Hfl Hzp Hl). rewrite Hzo, Hze, Hza. reflexivity.
Qed.

Lemma hstep_ok : forall fuel n s zo ze za dc tl rp pg, (0 < n)%nat -> finalL (zh zo ze za dc) s tl rp pg ->
  lrn_ok s (length zo) -> zo <> [] ->
  exists d, d <> [] /\ d ++ skipn (length d) zo = zo /\
    msg_read cfg inflate fuel n s = (d, None, false, take_z s (length d)) /\
    lrn_ok (take_z s (length d)) (length (skipn (length d) zo)).
Proof.
  intros fuel n s zo ze za dc tl rp pg Hn (Hi & Hf & (Hc & Hz & Hlim & Hsent) & Hr & Hg) Hok Hne.
  unfold zof, zh in Hz. injection Hz as Hfl Hzp Hzo Hze Hza Hdc.
  rewrite (msg_read_pulledL fuel n s Hc Hfl Hzp ltac:(unfold lrn_ok in Hok; lia)). rewrite Hzo.
  destruct zo as [|x zo']; [contradiction|]. cbv beta iota zeta. set (zo := x :: zo') in *.
  pose proof (capped_pos s n Hn) as Hcp.
  assert (Hzl : (1 <= length zo)%nat) by (unfold zo; cbn [length]; lia).
  set (d := firstn (capped s n) zo).
  assert (Hdl : length d = Nat.min (capped s n) (length zo)) by (unfold d; apply firstn_length).
  assert (Hsk : (length (skipn (length d) zo) = length zo - length d)%nat) by apply skipn_length.
  assert (Hh : limit_hit s (length d) = false).
  { unfold limit_hit. unfold lrn_ok in Hok. destruct (Z.leb_spec 0 (r_lrn s)); destruct (Z.leb_spec (r_lrn s - Z.of_nat (length d)) 0); cbn [andb]; try reflexivity; lia. }
  rewrite Hh. exists d. split; [intro E; rewrite E in Hdl; cbn [length] in Hdl; lia|].
  split; [unfold d; rewrite skipn_firstn_len; apply firstn_skipn|]. split; [reflexivity|].
  unfold lrn_ok in *. rewrite take_z_lrn. destruct (Z.ltb_spec (r_lrn s) 0); lia.
Qed.

Lemma hstep_lim : forall fuel n s zo ze za dc tl rp pg, (0 < n)%nat -> finalL (zh zo ze za dc) s tl rp pg ->
  (0 < r_lrn s)%Z -> (r_lrn s <= Z.of_nat (length zo))%Z ->
  zstepX_hit (msg_read cfg inflate fuel n s) s zo \/
  exists d, d <> [] /\ msg_read cfg inflate fuel n s = (d, None, false, take_z s (length d)) /\
    firstn (Z.to_nat (r_lrn s)) zo = d ++ firstn (Z.to_nat (r_lrn (take_z s (length d)))) (skipn (length d) zo) /\
    (0 < r_lrn (take_z s (length d)))%Z /\ (r_lrn (take_z s (length d)) <= Z.of_nat (length (skipn (length d) zo)))%Z.
Proof.
  intros fuel n s zo ze za dc tl rp pg Hn (Hi & Hf & (Hc & Hz & Hlim & Hsent) & Hr & Hg) Hpos Hle.
  unfold zof, zh in Hz. injection Hz as Hfl Hzp Hzo Hze Hza Hdc.
  rewrite (msg_read_pulledL fuel n s Hc Hfl Hzp ltac:(lia)). rewrite Hzo.
  destruct zo as [|x zo']; [cbn [length] in Hle; lia|]. cbv beta iota zeta. set (zo := x :: zo') in *.
  pose proof (capped_pos s n Hn) as Hcp. pose proof (capped_le s n Hpos) as Hcap.
  set (d := firstn (capped s n) zo).
  assert (Hdl : length d = Nat.min (capped s n) (length zo)) by (unfold d; apply firstn_length).
  assert (Hsk : (length (skipn (length d) zo) = length zo - length d)%nat) by apply skipn_length.
  unfold limit_hit. destruct (Z.leb_spec 0 (r_lrn s)) as [_|Hx]; [|lia]. cbn [andb].
  destruct (Z.leb_spec (r_lrn s - Z.of_nat (length d)) 0) as [Hhit|Hno].
  - left. eexists. split.
    + replace (Z.to_nat (r_lrn s)) with (capped s n) by lia. reflexivity.
    + exists (r_replies (take_z s (length d))). apply write_error_replies. exact Hsent.
  - right. exists d. split; [intro E; rewrite E in Hdl; cbn [length] in Hdl; lia|]. split; [reflexivity|].
    rewrite take_z_lrn. destruct (Z.ltb_spec (r_lrn s) 0) as [Hx|_]; [lia|].
    split; [|lia]. unfold d. rewrite (firstn_split_at zo (capped s n) (Z.to_nat (r_lrn s))) by (fold d; lia).
    fold d. replace (Z.to_nat (r_lrn s) - length d)%nat with (Z.to_nat (r_lrn s - Z.of_nat (length d))) by lia. reflexivity.
Qed.

(* ---------- the hand-out loop ---------- *)
Lemma handout_ok : forall fuel zo s n racc ze za dc tl rp pg, (0 < n)%nat -> finalL (zh zo ze za dc) s tl rp pg ->
  lrn_ok s (length zo) -> (length zo < fuel)%nat ->
  exists s', read_all cfg inflate fuel n s racc = (concat (frev racc) ++ zo, ze, s') /\
    (ze = None -> finalL (zh [] None [] (next_dict TK dc za)) s' tl rp pg).
Proof.
  induction fuel as [|fuel IH]; intros zo s n racc ze za dc tl rp pg Hn Fi Hok Hfu; [lia|].
  cbn [read_all].
  destruct zo as [|x zo'].
  - rewrite (hstep_end _ n s ze za dc tl rp pg Fi ltac:(unfold lrn_ok in Hok; lia)). destruct ze as [err|].
    + exists s. split; [rewrite frev_cons, !app_nil_r; reflexivity | discriminate].
    + eexists. split; [rewrite frev_cons, !app_nil_r; reflexivity|]. intros _. apply finalL_end_z. exact Fi.
  - assert (Hzl : (1 <= length (x :: zo'))%nat) by (cbn [length]; lia).
    set (zo := x :: zo') in *.
    destruct (hstep_ok (S (S fuel)) n s zo ze za dc tl rp pg Hn Fi Hok ltac:(discriminate)) as (d & Hd & Hsp & E & Hok').
    rewrite E.
    assert (Hdl : (1 <= length d)%nat) by (destruct d; [contradiction|cbn [length]; lia]).
    assert (Hsk : (length (skipn (length d) zo) = length zo - length d)%nat) by apply skipn_length.
    destruct (IH (skipn (length d) zo) (take_z s (length d)) n (d :: racc) ze za dc tl rp pg Hn
               (finalL_take_z _ _ _ _ _ _ _ _ _ Fi) Hok' ltac:(lia)) as (s' & E' & Fi').
    exists s'. split; [|exact Fi']. rewrite E', frev_cons, <- app_assoc, Hsp. reflexivity.
Qed.

Lemma handout_lim : forall fuel zo s n racc ze za dc tl rp pg, (0 < n)%nat -> finalL (zh zo ze za dc) s tl rp pg ->
  (0 < r_lrn s)%Z -> (r_lrn s <= Z.of_nat (length zo))%Z -> (length zo < fuel)%nat ->
  exists s', read_all cfg inflate fuel n s racc = (concat (frev racc) ++ firstn (Z.to_nat (r_lrn s)) zo, Some RELimit, s') /\
    exists rs, r_replies s' = rs ++ [RpClose c_StatusMessageTooBig None].
Proof.
  induction fuel as [|fuel IH]; intros zo s n racc ze za dc tl rp pg Hn Fi Hpos Hle Hfu; [lia|].
  cbn [read_all].
  destruct (hstep_lim (S (S fuel)) n s zo ze za dc tl rp pg Hn Fi Hpos Hle) as [(s' & E & Hrs)|(d & Hd & E & Hsp & Hpos' & Hle')].
  - rewrite E. exists s'. split; [|exact Hrs]. rewrite frev_cons. reflexivity.
  - rewrite E.
    assert (Hdl : (1 <= length d)%nat) by (destruct d; [contradiction|cbn [length]; lia]).
    assert (Hsk : (length (skipn (length d) zo) = length zo - length d)%nat) by apply skipn_length.
    destruct (IH (skipn (length d) zo) (take_z s (length d)) n (d :: racc) ze za dc tl rp pg Hn
               (finalL_take_z _ _ _ _ _ _ _ _ _ Fi) Hpos' Hle' ltac:(lia)) as (s' & E' & Hrs).
    exists s'. split; [|exact Hrs]. rewrite E', frev_cons, <- app_assoc, Hsp. reflexivity.
Qed.

(* ---------- io.ReadAll on a compressed message: pull everything (uncounted), inflate once, hand out under the allowance ---------- *)
Lemma read_all_z_pull : forall fuel s b fs tl n racc dc out st, at_posL (z0 true dc) s b fs tl -> (length (r_inq s) < fuel)%nat ->
  inflate dc ((b ++ bodies fs) ++ c_deflateMessageTail) = (out, st) -> r_lrn s <> 0%Z ->
  exists s1, read_all_z cfg inflate fuel n s racc = read_all_z cfg inflate fuel n s1 racc /\ r_lrn s1 = r_lrn s /\
    finalL (zh out (st_err st) out dc) s1 tl (r_replies s ++ pw (ctls fs)) (r_pongs s ++ pn (ctls fs)).
Proof.
  intros fuel s b fs tl n racc dc out st Ha Hfu Hinf Hnz.
  pose proof Ha as (_ & _ & _ & _ & Hc & Hz & Hlim & Hsent). unfold zof, z0 in Hz. injection Hz as Hfl Hzp Hzo Hze Hza Hdc.
  destruct (pull_all_restL fuel _ s b fs tl [] Ha Hfu) as (s0 & EP & Hl0 & Fi0).
  change (concat (frev (@nil bytes))) with (@nil N) in EP. cbn [app] in EP.
  rewrite <- Hdc in Hinf.
  pose proof Fi0 as (_ & _ & (Hc0 & Hz0 & _ & _) & _ & _). unfold zof, z0 in Hz0. injection Hz0 as Hfl0 _ _ _ _ _.
  exists (set_z s0 out (st_err st)). split; [|split].
  - unfold read_all_z. rewrite (msg_read_unpulledL fuel n s _ s0 out st Hc Hfl Hzp Hnz EP Hc0 Hl0 Hfl0 Hinf). reflexivity.
  - cbn [set_z r_lrn]. exact Hl0.
  - exact (finalL_set_z (z0 true dc) _ _ _ _ out (st_err st) eq_refl Fi0).
Qed.

Lemma read_all_z_flate_ok : forall fuel s b fs tl n racc dc out st, (0 < n)%nat -> at_posL (z0 true dc) s b fs tl -> (length (r_inq s) < fuel)%nat ->
  inflate dc ((b ++ bodies fs) ++ c_deflateMessageTail) = (out, st) -> lrn_ok s (length out) ->
  exists s', read_all_z cfg inflate fuel n s racc = (concat (frev racc) ++ out, st_err st, s') /\
    (st_ok st = true -> finalL (zh [] None [] (next_dict TK dc out)) s' tl (r_replies s ++ pw (ctls fs)) (r_pongs s ++ pn (ctls fs))).
Proof.
  intros fuel s b fs tl n racc dc out st Hn Ha Hfu Hinf Hok.
  destruct (read_all_z_pull fuel s b fs tl n racc dc out st Ha Hfu Hinf ltac:(unfold lrn_ok in Hok; lia)) as (s1 & E1 & Hl1 & Fi1).
  rewrite E1. clear E1.
  assert (Hok1 : lrn_ok s1 (length out)) by (unfold lrn_ok in *; rewrite Hl1; exact Hok).
  assert (Hse : st_err st = None -> st_ok st = true) by (unfold st_err; destruct (st_ok st); [reflexivity|discriminate]).
  assert (Hes : st_ok st = true -> st_err st = None) by (unfold st_err; intro H; rewrite H; reflexivity).
  unfold read_all_z.
  destruct out as [|x out'].
  - rewrite (hstep_end fuel n s1 _ _ _ _ _ _ Fi1 ltac:(unfold lrn_ok in Hok1; lia)).
    destruct (st_err st) as [err|] eqn:Ee.
    + eexists. split; [rewrite frev_cons; reflexivity|]. intro H. discriminate (Hes H).
    + eexists. split; [rewrite frev_cons; reflexivity|]. intros _. apply finalL_end_z. exact Fi1.
  - assert (Hzl : (1 <= length (x :: out'))%nat) by (cbn [length]; lia).
    set (out := x :: out') in *.
    destruct (hstep_ok fuel n s1 out _ _ _ _ _ _ Hn Fi1 Hok1 ltac:(discriminate)) as (d & Hd & Hsp & E & Hok').
    rewrite E.
    destruct (handout_ok (length (r_zout (take_z s1 (length d))) + fuel) (skipn (length d) out) (take_z s1 (length d)) n (d :: racc)
                (st_err st) out dc tl _ _ Hn (finalL_take_z _ _ _ _ _ _ _ _ _ Fi1) Hok') as (s' & E' & Fi').
    { destruct Fi1 as (_ & _ & (_ & Hz1 & _) & _). unfold zof, zh in Hz1. injection Hz1 as _ _ Hzo1 _ _ _.
      cbn [take_z r_zout]. rewrite Hzo1. lia. }
    exists s'. split.
    + rewrite E', frev_cons, <- app_assoc, Hsp. reflexivity.
    + intro H. apply Fi'. exact (Hes H).
Qed.

Lemma read_all_z_flate_lim : forall fuel s b fs tl n racc dc out st, (0 < n)%nat -> at_posL (z0 true dc) s b fs tl -> (length (r_inq s) < fuel)%nat ->
  inflate dc ((b ++ bodies fs) ++ c_deflateMessageTail) = (out, st) -> (0 < r_lrn s)%Z -> (r_lrn s <= Z.of_nat (length out))%Z ->
  exists s', read_all_z cfg inflate fuel n s racc = (concat (frev racc) ++ firstn (Z.to_nat (r_lrn s)) out, Some RELimit, s') /\
    exists rs, r_replies s' = rs ++ [RpClose c_StatusMessageTooBig None].
Proof.
  intros fuel s b fs tl n racc dc out st Hn Ha Hfu Hinf Hpos Hle.
  destruct (read_all_z_pull fuel s b fs tl n racc dc out st Ha Hfu Hinf ltac:(lia)) as (s1 & E1 & Hl1 & Fi1).
  rewrite E1. clear E1. rewrite <- Hl1 in *.
  unfold read_all_z.
  destruct (hstep_lim fuel n s1 out _ _ _ _ _ _ Hn Fi1 Hpos Hle) as [(s' & E & Hrs)|(d & Hd & E & Hsp & Hpos' & Hle')].
  - rewrite E. exists s'. split; [|exact Hrs]. rewrite frev_cons. reflexivity.
  - rewrite E.
    destruct (handout_lim (length (r_zout (take_z s1 (length d))) + fuel) (skipn (length d) out) (take_z s1 (length d)) n (d :: racc)
                (st_err st) out dc tl _ _ Hn (finalL_take_z _ _ _ _ _ _ _ _ _ Fi1) Hpos' Hle') as (s' & E' & Hrs).
    { destruct Fi1 as (_ & _ & (_ & Hz1 & _) & _). unfold zof, zh in Hz1. injection Hz1 as _ _ Hzo1 _ _ _.
      cbn [take_z r_zout]. rewrite Hzo1. lia. }
    exists s'. split; [|exact Hrs]. rewrite E', frev_cons, <- app_assoc, Hsp. reflexivity.
Qed.

(* ---------- Conn.reader at a message boundary: the allowance is set to the stored limit ---------- *)
Lemma reader_msg_L : forall fuel s z zm tl, wf_smsg (zm_m zm) -> (zm_z zm = true -> flate_on cfg = true) -> Inv z s -> r_fin s = true ->
  r_inq s = enc_zmsg M zm ++ tl -> (length (r_inq s) < fuel)%nat ->
  exists s1, reader cfg fuel s = Ok (sm_typ (zm_m zm)) s1 /\
    at_posL (z0 (zm_z zm) (if zm_z zm && negb TK then [] else z_dict z)) s1 (fr_body (sm_first (zm_m zm))) (sm_rest (zm_m zm)) tl /\
    r_lrn s1 = lim /\
    r_replies s1 = r_replies s ++ pw (fr_ctl (sm_first (zm_m zm))) /\ r_pongs s1 = r_pongs s ++ pn (fr_ctl (sm_first (zm_m zm))) /\
    (length (r_inq s1) <= length (r_inq s))%nat.
Proof.
  intros fuel s z [zz m] tl (Ht & (Hcs & Hbw & Hbl & Hkw) & Hwr) Hfo Hq Hf Hi Hfu. cbn [zm_z zm_m] in *.
  unfold enc_zmsg, enc_frag_z in Hi. cbn [zm_z zm_m] in Hi. rewrite enc_frame_mk_z in Hi. rewrite <- !app_assoc in Hi.
  assert (Ho : sm_typ m = 0 \/ sm_typ m = 1 \/ sm_typ m = 2) by (destruct Ht; auto).
  assert (Hrsv : zz = true -> flate_on cfg = true /\ (sm_typ m = 1 \/ sm_typ m = 2)) by auto.
  destruct (read_loop_ctls_L (fr_ctl (sm_first m)) fuel s z zz (is_nil (sm_rest m)) (sm_typ m) (fr_key (sm_first m)) (length (fr_body (sm_first m)))
              (wire M (fr_key (sm_first m)) (fr_body (sm_first m)) ++ enc_rest M (sm_rest m) ++ tl) Hcs Ho Hrsv Hbl Hkw Hq Hi Hfu)
    as (s1 & RL & I1 & Q1 & F1 & P1 & K1 & N1 & R1 & G1).
  unfold reader. destruct Hq as (Hc & Hz & Hlim & Hsent). rewrite Hc, Hf. cbn [negb]. rewrite RL.
  cbn [h_opc mk_hdr_z].
  destruct (N.eqb_spec (sm_typ m) 0) as [E0|_]; [destruct Ht as [Ht|Ht]; rewrite Ht in E0; discriminate|].
  eexists. split; [reflexivity|].
  destruct Q1 as (Q1a & Q1b & Q1c & Q1d).
  split; [|split; [cbn [reset_msg r_lrn]; exact Q1c|split; [cbn [reset_msg r_replies]; exact R1|split; [cbn [reset_msg r_pongs]; exact G1|]]]].
  - unfold at_posL, invL. cbn [reset_msg]. zsimp. rewrite wire_key. repeat split; auto.
    rewrite <- Q1b. reflexivity.
  - cbn [reset_msg r_inq]. rewrite I1, Hi. rewrite !app_length. lia.
Qed.

(* ---------- the whole script (every decompressed size within the limit), followed by arbitrary further operations ---------- *)
Lemma run_script_zvalidL : forall ms sizes ops fuel s z tl,
  Forall (fun zm => wf_smsg (zm_m zm)) ms -> Forall (fun zm => zm_z zm = true -> flate_on cfg = true) ms ->
  length sizes = length ms -> Forall (fun n => 0 < n)%nat sizes ->
  Inv z s -> (TK = false -> z_dict z = []) -> r_fin s = true -> r_inq s = enc_zscript M ms ++ tl -> (length (r_inq s) < fuel)%nat ->
  all_inflate_ok inflate TK (z_dict z) ms = true ->
  Forall (fun o => lim_ok lim (length o)) (zouts inflate TK (z_dict z) ms) ->
  exists s' z', finalL z' s' tl (r_replies s ++ pw (flat_map sm_ctls (map zm_m ms))) (r_pongs s ++ pn (flat_map sm_ctls (map zm_m ms))) /\
    z_dict z' = dict_after inflate TK (z_dict z) ms /\ (TK = false -> z_dict z' = []) /\
    run_script cfg inflate fuel (read_ops sizes ++ ops) s None =
      (let '(o, s2) := run_script cfg inflate fuel ops s' None in (expected_zobs inflate TK (z_dict z) ms ++ o, s2)).
Proof.
  induction ms as [|zm ms IH]; intros sizes ops fuel s z tl Hw Hfo Hl Hpos Hq Hinv Hf Hi Hfu Hok Hsz.
  - destruct sizes as [|n sizes]; [|discriminate]. exists s, z. split; [|split; [reflexivity|split; [exact Hinv|]]].
    + unfold finalL. cbn [map flat_map pw pn]. rewrite !app_nil_r. cbn [enc_zscript map concat app] in Hi. auto 10.
    + cbn [read_ops flat_map app expected_zobs]. destruct (run_script cfg inflate fuel ops s None) as [o s2]. reflexivity.
  - destruct sizes as [|n sizes]; [discriminate|]. cbn [length] in Hl. injection Hl as Hl.
    inversion Hw as [|m0 ms0 Hm Hw']. subst m0 ms0.
    inversion Hfo as [|m0 ms0 Hfm Hfo']. subst m0 ms0.
    inversion Hpos as [|n0 sz0 Hn Hpos']. subst n0 sz0.
    cbn [enc_zscript map concat] in Hi. rewrite <- app_assoc in Hi.
    change (concat (map (enc_zmsg M) ms)) with (enc_zscript M ms) in Hi.
    destruct (reader_msg_L fuel s z zm (enc_zscript M ms ++ tl) Hm Hfm Hq Hf Hi Hfu) as (s1 & R & A & N1 & R1 & G1 & L1).
    rewrite read_ops_cons, run_script_pair, R. cbv beta iota.
    cbn [zouts dict_after] in *. inversion Hsz as [|o0 os0 Hso Hsz']. subst o0 os0.
    destruct (zm_z zm) eqn:Ezz.
    + (* compressed *)
      assert (Hd1 : (if true && negb TK then [] else z_dict z) = z_dict z).
      { destruct TK eqn:Etk; cbn [andb negb]; [reflexivity|]. symmetry. apply Hinv. reflexivity. }
      rewrite Hd1 in A.
      destruct (inflate (z_dict z) (sm_payload (zm_m zm) ++ c_deflateMessageTail)) as [out st] eqn:Einf.
      destruct (zout_flate inflate TK _ _ out st Ezz Einf) as (Ezo & Eds). rewrite Ezo in Hso. rewrite Eds in *.
      rewrite (all_inflate_ok_flate cfg inflate _ _ _ out st Ezz Einf) in Hok.
      destruct (st_ok st) eqn:Eok; [|discriminate].
      destruct (read_all_z_flate_ok fuel s1 _ _ _ n [] (z_dict z) out st Hn A ltac:(lia) Einf) as (s2 & RZ & Fi2).
      { unfold lrn_ok. rewrite N1. exact Hso. }
      rewrite RZ. change (concat (frev (@nil bytes)) ++ out) with out.
      rewrite (expected_zobs_flate cfg inflate _ _ _ out st Ezz Einf).
      unfold st_err. rewrite Eok. cbv beta iota.
      destruct (Fi2 Eok) as (I2 & F2 & Q2 & R2 & G2).
      assert (L2 : (length (r_inq s2) < fuel)%nat).
      { rewrite I2. rewrite Hi in Hfu. rewrite app_length in Hfu. lia. }
      destruct (IH sizes ops fuel s2 _ tl Hw' Hfo' Hl Hpos' Q2) as (s3 & z3 & Fz & Ed3 & Hinv3 & RS);
        [| exact F2 | exact I2 | exact L2 | exact Hok | exact Hsz' |].
      { cbn [zh z_dict]. intro Etk. unfold next_dict. rewrite Etk. apply Hinv. exact Etk. }
      cbn [zh z_dict] in RS, Ed3. exists s3, z3. split; [|split; [exact Ed3|split; [exact Hinv3|]]].
      * rewrite R2, R1, G2, G1 in Fz. cbn [map flat_map]. unfold sm_ctls at 1 3.
        fold (ctls (sm_rest (zm_m zm))). rewrite !pw_app, !pn_app, !app_assoc. exact Fz.
      * rewrite RS. destruct (run_script cfg inflate fuel ops s3 None) as [o s4]. reflexivity.
    + (* not compressed *)
      cbn [andb] in A.
      destruct (zout_plain inflate TK (z_dict z) _ Ezz) as (Ezo & Eds). rewrite Ezo in Hso. rewrite Eds in *.
      cbn [all_inflate_ok] in Hok. rewrite Ezz in Hok.
      destruct (read_all_z_restL fuel (z0 false (z_dict z)) s1 (fr_body (sm_first (zm_m zm))) (sm_rest (zm_m zm)) (enc_zscript M ms ++ tl) n [] eq_refl Hn A)
        as (s2 & RZ & I2 & F2 & Q2 & R2 & G2).
      { unfold lrn_ok. rewrite N1. exact Hso. }
      { lia. }
      assert (L2 : (length (r_inq s2) < fuel)%nat).
      { rewrite I2. rewrite Hi in Hfu. rewrite app_length in Hfu. lia. }
      destruct (IH sizes ops fuel s2 _ tl Hw' Hfo' Hl Hpos' Q2) as (s3 & z3 & Fz & Ed3 & Hinv3 & RS);
        [exact Hinv | exact F2 | exact I2 | exact L2 | exact Hok | exact Hsz' |].
      cbn [z0 z_dict] in RS, Ed3. exists s3, z3. split; [|split; [exact Ed3|split; [exact Hinv3|]]].
      * rewrite R2, R1, G2, G1 in Fz. cbn [map flat_map]. unfold sm_ctls at 1 3.
        fold (ctls (sm_rest (zm_m zm))). rewrite !pw_app, !pn_app, !app_assoc. exact Fz.
      * rewrite RZ. cbv beta iota. rewrite RS. rewrite (expected_zobs_plain cfg inflate _ _ _ Ezz).
        destruct (run_script cfg inflate fuel ops s3 None) as [o s4]. reflexivity.
Qed.

End LimZ.

Lemma invL_init lim inq e : invL lim (zof (r_init lim inq e)) (r_init lim inq e).
Proof. unfold invL, r_init. zsimp. auto. Qed.

(* ---------- THE READ LIMIT COUNTS DECOMPRESSED BYTES ---------- *)
Theorem reader_limit_zstream : forall cfg inflate co ms sizes e (L : nat),
  rc_co cfg = Some co ->                                   (* permessage-deflate has been negotiated *)
  Forall (fun zm => wf_smsg (zm_m zm)) ms ->
  all_inflate_ok inflate (reader_takeover (rc_role cfg) co) [] ms = true ->
  length sizes = length ms -> Forall (fun n => 0 < n)%nat sizes ->
  let tk := reader_takeover (rc_role cfg) co in
  let masked := role_eqb (rc_role cfg) Server in
  let r := run cfg inflate (Z.of_nat L + 1)%Z (enc_zscript masked ms) e (read_ops sizes) in
  (* (a) every message decompresses to at most L bytes: as without a limit *)
  (Forall (fun o => length o <= L)%nat (zouts inflate tk [] ms) -> fst r = expected_zobs inflate tk [] ms) /\
  (* (b) the first message that decompresses to more than L bytes *)
  (forall pre zm post, ms = pre ++ zm :: post ->
     Forall (fun o => length o <= L)%nat (zouts inflate tk [] pre) ->
     let out := zout inflate (dict_after inflate tk [] pre) zm in
     (L < length out)%nat ->
     fst r = expected_zobs inflate tk [] pre ++ [ObReader (inl (sm_typ (zm_m zm))); ObMsg (firstn (S L) out) (Some RELimit)] /\
     exists rs, r_replies (snd r) = rs ++ [RpClose c_StatusMessageTooBig None]).
Proof.
  intros cfg inflate co ms sizes e L Hco Hw Hok Hl Hpos tk masked r. subst r masked tk.
  change (role_eqb (rc_role cfg) Server) with (is_server cfg). unfold run.
  assert (Htk : rd_takeover cfg = reader_takeover (rc_role cfg) co) by (unfold rd_takeover; rewrite Hco; reflexivity).
  assert (Hfo : flate_on cfg = true) by (unfold flate_on; rewrite Hco; reflexivity).
  rewrite <- Htk in *.
  set (lim := (Z.of_nat L + 1)%Z).
  set (fuel := S (S (length (enc_zscript (is_server cfg) ms)))).
  set (s0 := r_init lim (enc_zscript (is_server cfg) ms) e).
  assert (Hfoall : forall l : list zmsg, Forall (fun zm => zm_z zm = true -> flate_on cfg = true) l).
  { intro l. apply Forall_forall. intros zm _ _. exact Hfo. }
  assert (Hlimok : forall l : list bytes, Forall (fun o => length o <= L)%nat l -> Forall (fun o => lim_ok lim (length o)) l).
  { intros l H. eapply Forall_impl; [|exact H]. intros o Ho. unfold lim_ok, lim. cbv beta in Ho. lia. }
  split.
  - intro Hsmall.
    destruct (run_script_zvalidL cfg inflate lim ms sizes [] fuel s0 (zof s0) [] Hw (Hfoall ms) Hl Hpos (invL_init lim _ e))
      as (s' & z' & Fi & _ & _ & RS).
    + reflexivity.
    + reflexivity.
    + unfold s0, r_init. zsimp. rewrite app_nil_r. reflexivity.
    + unfold s0, r_init, fuel. zsimp. lia.
    + exact Hok.
    + apply Hlimok. exact Hsmall.
    + rewrite app_nil_r in RS. rewrite RS. cbn [run_script fst]. apply app_nil_r.
  - intros pre zm post Hms Hsmall Hbig.
    destruct (split_sizes sizes pre zm post ltac:(rewrite Hl, Hms; reflexivity)) as (sz1 & n & sz2 & Hsz & Hl1 & Hl2).
    rewrite Hms in Hw. apply Forall_app in Hw. destruct Hw as (Hw1 & Hw2).
    inversion Hw2 as [|m0 ms0 Hm Hw3]. subst m0 ms0.
    rewrite Hsz in Hpos. apply Forall_app in Hpos. destruct Hpos as (Hp1 & Hp2).
    inversion Hp2 as [|n0 sz0 Hn Hp3]. subst n0 sz0.
    rewrite Hms in Hok. apply all_inflate_ok_app in Hok. destruct Hok as (Hok1 & _).
    set (tl := enc_zmsg (is_server cfg) zm ++ enc_zscript (is_server cfg) post).
    assert (Hstream : enc_zscript (is_server cfg) ms = enc_zscript (is_server cfg) pre ++ tl).
    { rewrite Hms, enc_zscript_app. reflexivity. }
    destruct (run_script_zvalidL cfg inflate lim pre sz1 (OReader :: OReadAllN n :: read_ops sz2) fuel s0 (zof s0) tl Hw1 (Hfoall pre) Hl1 Hp1 (invL_init lim _ e))
      as (s' & z' & (I' & F' & Q' & R' & G') & Ed & Hinv' & RS).
    + reflexivity.
    + reflexivity.
    + unfold s0, r_init. zsimp. exact Hstream.
    + unfold s0, r_init, fuel. zsimp. lia.
    + exact Hok1.
    + apply Hlimok. exact Hsmall.
    + change (z_dict (zof s0)) with (@nil N) in RS, Ed.
      assert (Hfu : (length (r_inq s') < fuel)%nat).
      { rewrite I'. unfold fuel. rewrite Hstream, app_length. lia. }
      destruct (reader_msg_L cfg inflate lim fuel s' z' zm (enc_zscript (is_server cfg) post) Hm (fun _ => Hfo) Q' F' I' Hfu) as (s1 & R & A & N1 & R1 & G1 & L1).
      rewrite Hsz, read_ops_app. change (read_ops (n :: sz2)) with (OReader :: OReadAllN n :: read_ops sz2).
      rewrite RS. rewrite run_script_pair, R. cbv beta iota.
      replace (S L) with (Z.to_nat lim) by (unfold lim; lia).
      destruct (zm_z zm) eqn:Ezz.
      * (* a compressed message: the bomb *)
        assert (Hd1 : (if true && negb (rd_takeover cfg) then [] else z_dict z') = z_dict z').
        { destruct (rd_takeover cfg) eqn:Etk; cbn [andb negb]; [reflexivity|]. symmetry. apply Hinv'. reflexivity. }
        rewrite Hd1, Ed in A.
        destruct (inflate (dict_after inflate (rd_takeover cfg) [] pre) (sm_payload (zm_m zm) ++ c_deflateMessageTail)) as [o st] eqn:Einf.
        destruct (zout_flate inflate (rd_takeover cfg) _ _ o st Ezz Einf) as (Ezo & _). rewrite Ezo in *.
        destruct (read_all_z_flate_lim cfg inflate lim fuel s1 _ _ _ n [] _ o st Hn A ltac:(lia) Einf) as (s2 & RZ & Hrs).
        { rewrite N1. unfold lim. lia. }
        { rewrite N1. unfold lim. lia. }
        rewrite RZ. cbv beta iota. cbn [fst snd]. rewrite N1. split; [reflexivity|exact Hrs].
      * (* an uncompressed one *)
        cbn [andb] in A.
        destruct (zout_plain inflate (rd_takeover cfg) (dict_after inflate (rd_takeover cfg) [] pre) _ Ezz) as (Ezo & _). rewrite Ezo in *.
        destruct (read_all_z_limitL cfg inflate lim fuel (z0 false (z_dict z')) s1 (fr_body (sm_first (zm_m zm))) (sm_rest (zm_m zm))
                    (enc_zscript (is_server cfg) post) n [] eq_refl Hn A) as (s2 & RZ & Hrs).
        { rewrite N1. unfold lim. lia. }
        { rewrite N1. unfold lim. change (fr_body (sm_first (zm_m zm)) ++ bodies (sm_rest (zm_m zm))) with (sm_payload (zm_m zm)). lia. }
        { lia. }
        rewrite RZ. cbv beta iota. cbn [fst snd]. rewrite N1.
        change (fr_body (sm_first (zm_m zm)) ++ bodies (sm_rest (zm_m zm))) with (sm_payload (zm_m zm)).
        split; [reflexivity|exact Hrs].
Qed.

(* ---------- a compression bomb: 2 bytes of payload on the wire, 1000 bytes out of the inflater, limit 10 ---------- *)
Definition bomb_inflate (d z : bytes) : bytes * istatus := (repeat 7 1000, INeedMore).
Definition bomb_zm : zmsg :=
  {| zm_z := true; zm_m := {| sm_typ := 2; sm_first := {| fr_ctl := []; fr_body := [1; 2]; fr_key := (1, 2, 3, 4) |}; sm_rest := [] |} |}.
(* an uncompressed message of 3 bytes first (within the limit), then the bomb, then something that is never read *)
Definition plain_zm : zmsg :=
  {| zm_z := false; zm_m := {| sm_typ := 1; sm_first := {| fr_ctl := []; fr_body := [5; 6; 7]; fr_key := (4, 3, 2, 1) |}; sm_rest := [] |} |}.

Example reader_limit_zstream_bomb :
  let cfg := {| rc_role := Server; rc_co := Some {| cnct := false; snct := true |} |} in
  let r n := run cfg bomb_inflate (10 + 1)%Z (enc_zscript true [bomb_zm]) EOpen (read_ops [n]) in
  length (enc_zscript true [bomb_zm]) = 8%nat /\                     (* 2 + 4 (mask key) + 2 bytes on the wire *)
  length (zout bomb_inflate [] bomb_zm) = 1000%nat /\
  (fst (r 1%nat) = [ObReader (inl 2); ObMsg (repeat 7 11) (Some RELimit)] /\ r_replies (snd (r 1%nat)) = [RpClose 1009 None]) /\
  (fst (r 3%nat) = [ObReader (inl 2); ObMsg (repeat 7 11) (Some RELimit)] /\ r_replies (snd (r 3%nat)) = [RpClose 1009 None]) /\
  (fst (r 4096%nat) = [ObReader (inl 2); ObMsg (repeat 7 11) (Some RELimit)] /\ r_replies (snd (r 4096%nat)) = [RpClose 1009 None]) /\
  (* a client reading, no context takeover, the bomb after an uncompressed message *)
  (let cfg' := {| rc_role := Client; rc_co := Some {| cnct := true; snct := true |} |} in
   let r' := run cfg' bomb_inflate (10 + 1)%Z (enc_zscript false [plain_zm; bomb_zm; plain_zm]) EEof (read_ops [2; 5; 1]%nat) in
   fst r' = [ObReader (inl 1); ObMsg [5; 6; 7] None; ObReader (inl 2); ObMsg (repeat 7 11) (Some RELimit)] /\
   r_replies (snd r') = [RpClose 1009 None]) /\
  (* at the boundary: with a limit of exactly 1000 the message is delivered, with 999 it is not *)
  fst (run cfg bomb_inflate (1000 + 1)%Z (enc_zscript true [bomb_zm]) EOpen (read_ops [64]%nat)) = [ObReader (inl 2); ObMsg (repeat 7 1000) None] /\
  fst (run cfg bomb_inflate (999 + 1)%Z (enc_zscript true [bomb_zm]) EOpen (read_ops [64]%nat)) = [ObReader (inl 2); ObMsg (repeat 7 1000) (Some RELimit)].
Proof. vm_compute. repeat split. Qed.

(* the hypotheses of the theorem hold for the example, so the theorem applies to it *)
Example bomb_hyps : Forall (fun zm => wf_smsg (zm_m zm)) [plain_zm; bomb_zm; plain_zm] /\
  all_inflate_ok bomb_inflate false [] [plain_zm; bomb_zm; plain_zm] = true /\
  Forall (fun o => length o <= 10)%nat (zouts bomb_inflate false [] [plain_zm]) /\
  (10 < length (zout bomb_inflate (dict_after bomb_inflate false [] [plain_zm]) bomb_zm))%nat.
Proof.
  assert (K : forall a b c d, a < 256 -> b < 256 -> c < 256 -> d < 256 -> wf_key (a, b, c, d)) by (intros; unfold wf_key; auto).
  split; [|split; [reflexivity|split]].
  - unfold plain_zm, bomb_zm. repeat (apply Forall_cons || apply Forall_nil); cbn [zm_m]; unfold wf_smsg, wf_frag, wf_bytes;
      cbn [sm_typ sm_first sm_rest fr_ctl fr_body fr_key length];
      repeat (apply Forall_cons || apply Forall_nil || split); try (apply K); cbn [length]; try lia; auto.
  - repeat constructor.
  - vm_compute. lia.
Qed.

Print Assumptions reader_limit_zstream.
