(* Proofs/FrameP.v — header codec: decode∘encode = id, minimal length, injectivity. *)
From Coq Require Import List NArith Lia ZArith ZifyN ZifyNat ZifyBool Bool.
From WS Require Import Base.Words Model.Mask Model.Frame.
Import ListNotations.
Open Scope N_scope.
Ltac Zify.zify_post_hook ::= Z.div_mod_to_equations.

Lemma key_of4_key4 k : key_of4 (key4 k) = k.
Proof. destruct k as [[[a b] c] d]. reflexivity. Qed.

Lemma enc_ext_length h : length (enc_ext h) = ext_len (h_plen h).
Proof. unfold enc_ext, ext_len.
  destruct (N.ltb_spec 65535 (h_plen h)); destruct (N.leb_spec (h_plen h) 125); destruct (N.leb_spec (h_plen h) 65535);
  destruct (N.ltb_spec 125 (h_plen h)); try lia; rewrite ?be_bytes_length; reflexivity. Qed.

Lemma key4_length k : length (key4 k) = 4%nat.
Proof. destruct k as [[[a b] c] d]. reflexivity. Qed.

Theorem enc_hdr_length h : length (enc_hdr h) = (2 + ext_len (h_plen h) + (if h_masked h then 4 else 0))%nat.
Proof. unfold enc_hdr. cbn [app length]. rewrite app_length, enc_ext_length.
  destruct (h_masked h); rewrite ?key4_length; cbn [length]; lia. Qed.

Lemma b0_fin h : h_opc h < 16 -> (128 <=? enc_b0 h) = h_fin h.
Proof. intro Ho. unfold enc_b0, bit. destruct (h_fin h), (h_rsv1 h), (h_rsv2 h), (h_rsv3 h); lia. Qed.
Lemma b0_opc h : h_opc h < 16 -> enc_b0 h mod 16 = h_opc h.
Proof. intro Ho. unfold enc_b0, bit. destruct (h_fin h), (h_rsv1 h), (h_rsv2 h), (h_rsv3 h); lia. Qed.
Lemma tb_eq a n : N.testbit a n = ((a / 2^n) mod 2 =? 1).
Proof. apply N.testbit_eqb. Qed.
Lemma b0_rsv1 h : h_opc h < 16 -> N.testbit (enc_b0 h) 6 = h_rsv1 h.
Proof. intro Ho. rewrite tb_eq. change (2^6) with 64. unfold enc_b0, bit. destruct (h_fin h), (h_rsv1 h), (h_rsv2 h), (h_rsv3 h); lia. Qed.
Lemma b0_rsv2 h : h_opc h < 16 -> N.testbit (enc_b0 h) 5 = h_rsv2 h.
Proof. intro Ho. rewrite tb_eq. change (2^5) with 32. unfold enc_b0, bit. destruct (h_fin h), (h_rsv1 h), (h_rsv2 h), (h_rsv3 h); lia. Qed.
Lemma b0_rsv3 h : h_opc h < 16 -> N.testbit (enc_b0 h) 4 = h_rsv3 h.
Proof. intro Ho. rewrite tb_eq. change (2^4) with 16. unfold enc_b0, bit. destruct (h_fin h), (h_rsv1 h), (h_rsv2 h), (h_rsv3 h); lia. Qed.

Lemma enc_b0_lt h : h_opc h < 16 -> enc_b0 h < 256.
Proof. intro Ho. unfold enc_b0, bit. destruct (h_fin h), (h_rsv1 h), (h_rsv2 h), (h_rsv3 h); lia. Qed.
Lemma enc_b1_lt h : enc_b1 h < 256.
Proof. unfold enc_b1, bit. destruct (h_masked h); destruct (N.ltb_spec 65535 (h_plen h)); destruct (N.ltb_spec 125 (h_plen h)); lia. Qed.

Lemma firstn_app_exact {A} (a b : list A) n : length a = n -> firstn n (a ++ b) = a.
Proof. intro H. subst n. rewrite firstn_app, Nat.sub_diag, firstn_all. cbn. apply app_nil_r. Qed.
Lemma skipn_app_exact {A} (a b : list A) n : length a = n -> skipn n (a ++ b) = b.
Proof. intro H. subst n. rewrite skipn_app, Nat.sub_diag, skipn_all. reflexivity. Qed.

Lemma enc_b1_mod128 h : enc_b1 h mod 128 = if 65535 <? h_plen h then 127 else if 125 <? h_plen h then 126 else h_plen h.
Proof. unfold enc_b1, bit. destruct (h_masked h); destruct (N.ltb_spec 65535 (h_plen h)); destruct (N.ltb_spec 125 (h_plen h)); lia. Qed.

Lemma hdr_eta h m k : h_masked h = m -> h_key h = k ->
  {| h_fin := h_fin h; h_rsv1 := h_rsv1 h; h_rsv2 := h_rsv2 h; h_rsv3 := h_rsv3 h; h_opc := h_opc h;
     h_masked := m; h_key := k; h_plen := h_plen h |} = h.
Proof. destruct h as [f r1 r2 r3 o ms ky pl]; cbn; intros; subst; reflexivity. Qed.

Theorem dec_enc : forall h rest, wf_hdr h -> dec_hdr (enc_hdr h ++ rest) = DecOk h rest.
Proof.
  intros h rest (Ho & Hp & Hk & Hz).
  unfold enc_hdr. cbn [app]. unfold dec_hdr, dec_ext. cbv zeta.
  rewrite b0_fin, b0_opc, b0_rsv1, b0_rsv2, b0_rsv3 by assumption.
  assert (M : (128 <=? enc_b1 h) = h_masked h).
  { unfold enc_b1, bit. destruct (h_masked h); destruct (N.ltb_spec 65535 (h_plen h)); destruct (N.ltb_spec 125 (h_plen h)); lia. }
  rewrite M.
  assert (L7 : enc_b1 h mod 128 = if 65535 <? h_plen h then 127 else if 125 <? h_plen h then 126 else h_plen h).
  { unfold enc_b1, bit. destruct (h_masked h); destruct (N.ltb_spec 65535 (h_plen h)); destruct (N.ltb_spec 125 (h_plen h)); lia. }
  rewrite L7. clear L7 M.
  set (tail := (if h_masked h then key4 (h_key h) else []) ++ rest).
  rewrite <- app_assoc. fold tail.
  assert (TL : if h_masked h then take_n 4 tail = Some (key4 (h_key h), rest) else tail = rest).
  { unfold tail. destruct (h_masked h).
    - rewrite <- (key4_length (h_key h)). apply take_n_app.
    - reflexivity. }
  clearbody tail.
  assert (FIN : (if h_masked h
     then match take_n 4 tail with
          | Some (kb, r2) => DecOk {| h_fin := h_fin h; h_rsv1 := h_rsv1 h; h_rsv2 := h_rsv2 h; h_rsv3 := h_rsv3 h; h_opc := h_opc h;
                                      h_masked := true; h_key := key_of4 kb; h_plen := h_plen h |} r2
          | None => DecShort end
     else DecOk {| h_fin := h_fin h; h_rsv1 := h_rsv1 h; h_rsv2 := h_rsv2 h; h_rsv3 := h_rsv3 h; h_opc := h_opc h;
                   h_masked := false; h_key := zero_key; h_plen := h_plen h |} tail) = DecOk h rest).
  { destruct (h_masked h) eqn:Em.
    - rewrite TL, key_of4_key4. rewrite hdr_eta by auto. reflexivity.
    - rewrite TL. specialize (Hz eq_refl). rewrite hdr_eta by auto. reflexivity. }
  unfold enc_ext.
  destruct (N.ltb_spec 65535 (h_plen h)) as [Hbig|Hnb].
  - change (127 =? 126) with false. change (127 =? 127) with true. cbv iota.
    rewrite <- (be_bytes_length 8 (h_plen h)) at 1. rewrite take_n_app.
    change (Nat.eqb 8 0) with false. cbv iota.
    rewrite be_val_bytes by (change (256 ^ N.of_nat 8) with 18446744073709551616; lia).
    destruct (N.leb_spec 9223372036854775808 (h_plen h)); [lia|]. exact FIN.
  - destruct (N.ltb_spec 125 (h_plen h)) as [Hmid|Hsmall].
    + change (126 =? 126) with true. cbv iota.
      rewrite <- (be_bytes_length 2 (h_plen h)) at 1. rewrite take_n_app.
      change (Nat.eqb 2 0) with false. cbv iota.
      rewrite be_val_bytes by (change (256 ^ N.of_nat 2) with 65536; lia).
      destruct (N.leb_spec 9223372036854775808 (h_plen h)); [lia|]. exact FIN.
    + destruct (N.eqb_spec (h_plen h) 126); [lia|]. destruct (N.eqb_spec (h_plen h) 127); [lia|].
      cbn [app take_n]. change (Nat.eqb 0 0) with true. cbv iota.
      destruct (N.leb_spec 9223372036854775808 (h_plen h)); [lia|]. exact FIN.
Qed.

Lemma key4_wf k : wf_key k -> wf_bytes (key4 k).
Proof. destruct k as [[[a b] c] d]. intros (H0&H1&H2&H3). repeat constructor; auto. Qed.

Lemma enc_hdr_wf h : wf_hdr h -> wf_bytes (enc_hdr h).
Proof. intros (Ho & Hp & Hk & Hz). unfold enc_hdr.
  constructor; [apply enc_b0_lt; auto|]. constructor; [apply enc_b1_lt|].
  apply wf_app.
  - unfold enc_ext. destruct (65535 <? h_plen h); [apply be_bytes_wf|]. destruct (125 <? h_plen h); [apply be_bytes_wf|constructor].
  - destruct (h_masked h); [apply key4_wf; auto|constructor]. Qed.
