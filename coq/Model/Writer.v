(* Model/Writer.v — executable definitions only.  Mirrors /repo/write.go and compress.go:83-134.
   API programs -> list of frames -> wire bytes.  The DEFLATE compressor is an oracle [dz]
   (compress/flate, BestSpeed): given the history of operations on one flate.Writer since its
   creation/Reset it returns the chunks handed to the underlying writer by the LAST operation. *)
From Coq Require Import List NArith ZArith Bool.
From WS Require Import Base.Words Gen.Consts Model.Mask Model.Frame Model.Proto Model.CloseCodec.
Import ListNotations.
Open Scope N_scope.

Inductive dzop := DWrite (p : bytes) | DFlush.

(* one API call that writes *)
Inductive wop :=
| WWrite (typ : N) (p : bytes)                   (* Conn.Write   write.go:44-50,104-122 *)
| WStream (typ : N) (chunks : list bytes)        (* Conn.Writer; w.Write(chunk)…; w.Close()   write.go:30-36,148-221 *)
| WControl (opc : N) (p : bytes)                 (* writeControl: Ping (conn.go:195-238), Pong (read.go:304) *)
| WClose (code : Z) (reason : bytes).            (* writeClose  close.go:171-197 *)

Record wcfg := { wc_role : role; wc_co : option copts; wc_thr0 : N (* CompressionThreshold option, 0 = default *) }.

(* conn.go:122-130 *)
Definition wc_takeover (c : wcfg) : bool := match wc_co c with Some o => writer_takeover (wc_role c) o | None => false end.
Definition wc_thr (c : wcfg) : N :=
  match wc_co c with
  | None => wc_thr0 c
  | Some _ => if wc_thr0 c =? 0 then (if wc_takeover c then Z.to_N c_flateThresholdTakeover else Z.to_N c_flateThresholdNoTakeover) else wc_thr0 c
  end.

Record wst := { w_nkey : nat;               (* mask keys consumed so far (crypto/rand is an input: keys : nat -> key) *)
                w_hist : list dzop;         (* operations on the retained flate.Writer (context takeover) *)
                w_close_sent : bool;        (* a Close frame has been written (write.go, writeFrame) *)
                w_out : list frame }.       (* frames written, oldest first *)

Definition w_init : wst := {| w_nkey := 0; w_hist := []; w_close_sent := false; w_out := [] |}.

Section Writer.
Variable keys : nat -> key.
Variable dz : list dzop -> list bytes.
Variable cfg : wcfg.

(* writeFrame (write.go:245-316): header fields, key for clients, rsv1 only on text/binary *)
Definition write_frame_raw (s : wst) (fin fl : bool) (opc : N) (p : bytes) : wst :=
  let client := role_eqb (wc_role cfg) Client in
  let h := {| h_fin := fin; h_rsv1 := fl && is_data_first opc; h_rsv2 := false; h_rsv3 := false; h_opc := opc;
              h_masked := client; h_key := if client then keys (w_nkey s) else zero_key;
              h_plen := N.of_nat (length p) |} in
  {| w_nkey := if client then S (w_nkey s) else w_nkey s; w_hist := w_hist s;
     w_close_sent := w_close_sent s || (opc =? 8); w_out := w_out s ++ [(h, p)] |}.

(* RFC 6455 §5.5.1 as writeFrame enforces it: once a Close frame has been written only Pings and Pongs are
   written; any other frame is refused and nothing reaches the wire *)
Definition write_frame (s : wst) (fin fl : bool) (opc : N) (p : bytes) : wst :=
  if w_close_sent s && negb ((opc =? 9) || (opc =? 10)) then s else write_frame_raw s fin fl opc p.

(* state of one open message writer: (connection state, opcode still to use, flate on, trim tail) *)
Record mw := { m_s : wst; m_opc : N; m_flate : bool; m_tail : bytes; m_hist : list dzop }.

(* msgWriter.write (write.go:180-187): one non-final frame, then the opcode becomes continuation *)
Definition mw_frame (m : mw) (p : bytes) : mw :=
  {| m_s := write_frame (m_s m) false (m_flate m) (m_opc m) p; m_opc := 0; m_flate := m_flate m; m_tail := m_tail m; m_hist := m_hist m |}.

(* trimLastFourBytesWriter.Write (compress.go:94-134) *)
Definition trim_write (m : mw) (p : bytes) : mw :=
  let lt := length (m_tail m) in let lp := length p in
  if Nat.leb (lt + lp) 4 then
    {| m_s := m_s m; m_opc := m_opc m; m_flate := m_flate m; m_tail := m_tail m ++ p; m_hist := m_hist m |}
  else
    let extra := Nat.min (lt + lp - 4) lt in
    let m1 := if Nat.ltb 0 extra then mw_frame m (firstn extra (m_tail m)) else m in
    let tail1 := skipn extra (m_tail m) in
    if Nat.leb lp 4 then
      {| m_s := m_s m1; m_opc := m_opc m1; m_flate := m_flate m1; m_tail := tail1 ++ p; m_hist := m_hist m1 |}
    else
      let m2 := {| m_s := m_s m1; m_opc := m_opc m1; m_flate := m_flate m1; m_tail := tail1 ++ skipn (lp - 4) p; m_hist := m_hist m1 |} in
      mw_frame m2 (firstn (lp - 4) p).

(* one operation on the flate writer: its chunks go through the trim writer *)
Definition mw_dz (m : mw) (op : dzop) : mw :=
  let hist := m_hist m ++ [op] in
  let m0 := {| m_s := m_s m; m_opc := m_opc m; m_flate := m_flate m; m_tail := m_tail m; m_hist := hist |} in
  fold_left trim_write (dz hist) m0.

(* msgWriter.Write (write.go:148-178) *)
Definition mw_write (m : mw) (p : bytes) : mw :=
  let on := match wc_co cfg with
            | Some _ => m_flate m || (negb (m_opc m =? 0) && (wc_thr cfg <=? N.of_nat (length p)))
            | None => m_flate m end in
  let m1 := {| m_s := m_s m; m_opc := m_opc m; m_flate := on; m_tail := m_tail m; m_hist := m_hist m |} in
  if on then mw_dz m1 (DWrite p) else mw_frame m1 p.

(* msgWriter.Close (write.go:190-221) *)
Definition mw_close (m : mw) : wst :=
  let m1 := if m_flate m then mw_dz m DFlush else m in
  let s := write_frame (m_s m1) true (m_flate m1) (m_opc m1) [] in
  {| w_nkey := w_nkey s; w_hist := if m_flate m1 then (if wc_takeover cfg then m_hist m1 else []) else w_hist s;
     w_close_sent := w_close_sent s; w_out := w_out s |}.

(* msgWriter.reset (write.go:124-138) *)
Definition mw_open (s : wst) (typ : N) : mw :=
  {| m_s := s; m_opc := typ; m_flate := false; m_tail := []; m_hist := w_hist s |}.

Definition w_step (s : wst) (op : wop) : wst :=
  match op with
  | WWrite typ p =>
      match wc_co cfg with
      | None => write_frame s true false typ p                              (* write.go:110-113 *)
      | Some _ => mw_close (mw_write (mw_open s typ) p)                     (* write.go:115-121 *)
      end
  | WStream typ chunks => mw_close (fold_left mw_write chunks (mw_open s typ))
  | WControl opc p => write_frame s true false opc p
  | WClose code reason =>
      match close_payload code reason with
      | Some p => write_frame s true false 8 p
      | None => s                                                           (* refused: nothing is written *)
      end
  end.

Definition w_run (prog : list wop) : wst := fold_left w_step prog w_init.
Definition w_wire (s : wst) : bytes := concat (map enc_frame (w_out s)).
End Writer.

(* ---- writeFramePayload for a client (write.go:318-355), with the bufio.Writer made explicit ----
   state: bytes already handed to the transport, bytes sitting in the 4096-byte buffer, the carried key *)
Fixpoint wp_loop (fuel cap : nat) (wire buffered : bytes) (k : key) (p : bytes) : bytes * bytes * key :=
  match fuel with
  | O => (wire, buffered, k)
  | S f =>
    match p with
    | [] => (wire, buffered, k)
    | _ =>
      (* if c.bw.Available() == 0 { c.bw.Flush() } *)
      let '(wire1, buf1) := if Nat.eqb (cap - length buffered) 0 then (wire ++ buffered, []) else (wire, buffered) in
      (* j := min(len(p), Available()); copy p[:j] into the buffer; mask that region of the BUFFER with the carried key *)
      let j := Nat.min (length p) (cap - length buf1) in
      let '(m, k') := maskGo k (firstn j p) in
      wp_loop f cap wire1 (buf1 ++ m) k' (skipn j p)
    end
  end.
