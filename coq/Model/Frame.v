(* Model/Frame.v — executable definitions only.  Mirrors /repo/frame.go.
   enc_hdr = writeFrameHeader (frame.go:108-173); dec_hdr = readFrameHeader (frame.go:50-102). *)
From Coq Require Import List NArith Bool.
From WS Require Import Base.Words Model.Mask.
Import ListNotations.
Open Scope N_scope.

Record hdr := { h_fin : bool; h_rsv1 : bool; h_rsv2 : bool; h_rsv3 : bool; h_opc : N;
                h_masked : bool; h_key : key; h_plen : N }.

Definition zero_key : key := (0,0,0,0).
Definition bit (b : bool) (v : N) : N := if b then v else 0.

(* frame.go:113-127 : first byte *)
Definition enc_b0 (h : hdr) : N :=
  bit (h_fin h) 128 + bit (h_rsv1 h) 64 + bit (h_rsv2 h) 32 + bit (h_rsv3 h) 16 + h_opc h.

(* frame.go:134-147 : second byte — note the switch order: > MaxUint16, > 125, >= 0 *)
Definition enc_b1 (h : hdr) : N :=
  bit (h_masked h) 128 + (if 65535 <? h_plen h then 127 else if 125 <? h_plen h then 126 else h_plen h).

(* frame.go:152-170 *)
Definition enc_ext (h : hdr) : bytes :=
  if 65535 <? h_plen h then be_bytes 8 (h_plen h)
  else if 125 <? h_plen h then be_bytes 2 (h_plen h) else [].

Definition enc_hdr (h : hdr) : bytes :=
  [enc_b0 h; enc_b1 h] ++ enc_ext h ++ (if h_masked h then key4 (h_key h) else []).

(* result of reading a header from the bytes available before the transport ends *)
Inductive dec_res :=
| DecOk (h : hdr) (rest : bytes)
| DecShort                   (* the input ends inside the header (ReadByte / io.ReadFull fail) *)
| DecNeg.                    (* 64-bit length with the top bit set: int64 < 0 (frame.go:89-91) *)

Definition key_of4 (l : bytes) : key :=
  match l with [a;b;c;d] => (a,b,c,d) | _ => zero_key end.

(* frame.go:75-84 : how many bytes of extended length follow the 7-bit field *)
Definition dec_ext (l7 : N) : nat := if l7 =? 126 then 2%nat else if l7 =? 127 then 8%nat else 0%nat.

Definition dec_hdr (inp : bytes) : dec_res :=
  match inp with
  | b0 :: b1 :: r =>
    let fin := 128 <=? b0 in
    let rsv1 := N.testbit b0 6 in let rsv2 := N.testbit b0 5 in let rsv3 := N.testbit b0 4 in
    let opc := b0 mod 16 in
    let masked := 128 <=? b1 in
    let l7 := b1 mod 128 in
    let ext := dec_ext l7 in
    match take_n ext r with
    | None => DecShort
    | Some (eb, r1) =>
      let plen := if Nat.eqb ext 0 then l7 else be_val eb in
      if 9223372036854775808 <=? plen then DecNeg else
      if masked then
        match take_n 4 r1 with
        | None => DecShort
        | Some (kb, r2) =>
          DecOk {| h_fin := fin; h_rsv1 := rsv1; h_rsv2 := rsv2; h_rsv3 := rsv3; h_opc := opc;
                   h_masked := true; h_key := key_of4 kb; h_plen := plen |} r2
        end
      else
        DecOk {| h_fin := fin; h_rsv1 := rsv1; h_rsv2 := rsv2; h_rsv3 := rsv3; h_opc := opc;
                 h_masked := false; h_key := zero_key; h_plen := plen |} r1
    end
  | _ => DecShort
  end.

(* a header as the library's writer can produce it *)
Definition wf_hdr (h : hdr) : Prop :=
  h_opc h < 16 /\ h_plen h < 9223372036854775808 /\ wf_key (h_key h) /\ (h_masked h = false -> h_key h = zero_key).

(* number of extended-length bytes of the MINIMAL encoding (RFC 6455 §5.2) *)
Definition ext_len (n : N) : nat := if n <=? 125 then 0%nat else if n <=? 65535 then 2%nat else 8%nat.
