(* Model/Sha1.v — executable SHA-1 (FIPS 180-4) over byte lists.  Definitions only. *)
From Coq Require Import List NArith.
From WS Require Import Base.Words.
Import ListNotations.
Open Scope N_scope.

Definition sha1_mask : N := 4294967295.            (* 2^32 - 1 *)
Definition sha1_trunc (x : N) : N := N.land x sha1_mask.
Definition sha1_rotl (n x : N) : N :=
  sha1_trunc (N.lor (N.shiftl x n) (N.shiftr x (32 - n))).

(* state: five 32-bit words *)
Definition sha1_state := (N * N * N * N * N)%type.
Definition sha1_init : sha1_state :=
  (1732584193, 4023233417, 2562383102, 271733878, 3285377520).

(* length in N, without going through nat *)
Fixpoint sha1_len (acc : N) (m : bytes) : N :=
  match m with [] => acc | _ :: r => sha1_len (N.succ acc) r end.

(* padding: 0x80, zeros up to 56 mod 64, 64-bit big-endian bit length *)
Definition sha1_pad (m : bytes) : bytes :=
  let l := sha1_len 0 m in
  let k := N.to_nat ((119 - l mod 64) mod 64) in
  m ++ 128 :: repeat 0 k ++ be_bytes 8 ((8 * l) mod 18446744073709551616).

(* bytes -> big-endian 32-bit words *)
Fixpoint sha1_words (b : bytes) : list N :=
  match b with
  | a :: b :: c :: d :: r =>
      (((a mod 256) * 256 + b mod 256) * 256 + c mod 256) * 256 + d mod 256 :: sha1_words r
  | _ => []
  end.

(* message schedule, built reversed: head of [acc] is w[t-1] *)
Fixpoint sha1_sched (fuel : nat) (acc : list N) : list N :=
  match fuel with
  | O => acc
  | S f =>
      let w := sha1_rotl 1 (N.lxor (N.lxor (nth 2 acc 0) (nth 7 acc 0))
                                   (N.lxor (nth 13 acc 0) (nth 15 acc 0))) in
      sha1_sched f (w :: acc)
  end.

Definition sha1_f (t b c d : N) : N :=
  if t <? 20 then N.lxor d (N.land b (N.lxor c d))
  else if t <? 40 then N.lxor b (N.lxor c d)
  else if t <? 60 then N.lor (N.land b c) (N.land d (N.lor b c))
  else N.lxor b (N.lxor c d).
Definition sha1_k (t : N) : N :=
  if t <? 20 then 1518500249
  else if t <? 40 then 1859775393
  else if t <? 60 then 2400959708
  else 3395469782.

Fixpoint sha1_rounds (t : N) (ws : list N) (s : sha1_state) : sha1_state :=
  match ws with
  | [] => s
  | w :: r =>
      let '(a, b, c, d, e) := s in
      let tmp := sha1_trunc (sha1_rotl 5 a + sha1_f t b c d + e + sha1_k t + w) in
      sha1_rounds (N.succ t) r (tmp, a, sha1_rotl 30 b, c, d)
  end.

Definition sha1_add5 (h s : sha1_state) : sha1_state :=
  let '(h0, h1, h2, h3, h4) := h in
  let '(a, b, c, d, e) := s in
  (sha1_trunc (h0 + a), sha1_trunc (h1 + b), sha1_trunc (h2 + c),
   sha1_trunc (h3 + d), sha1_trunc (h4 + e)).

(* [blk_rev] holds the 16 words of the block, last word first *)
Definition sha1_schedule (blk_rev : list N) : list N := rev (sha1_sched 64%nat blk_rev).
Definition sha1_block (h : sha1_state) (blk_rev : list N) : sha1_state :=
  sha1_rounds 0 (sha1_schedule blk_rev) h.
Definition sha1_compress (h : sha1_state) (blk_rev : list N) : sha1_state :=
  sha1_add5 h (sha1_block h blk_rev).

(* consume words, compressing every 16; [n] counts down from 15 *)
Fixpoint sha1_go (h : sha1_state) (acc : list N) (n : nat) (ws : list N) {struct ws} : sha1_state :=
  match ws with
  | [] => h
  | w :: r =>
      match n with
      | O => sha1_go (sha1_compress h (w :: acc)) [] 15%nat r
      | S n' => sha1_go h (w :: acc) n' r
      end
  end.

Definition sha1_out (h : sha1_state) : bytes :=
  let '(a, b, c, d, e) := h in
  be_bytes 4 a ++ be_bytes 4 b ++ be_bytes 4 c ++ be_bytes 4 d ++ be_bytes 4 e.

Definition sha1 (msg : bytes) : bytes :=
  sha1_out (sha1_go sha1_init [] 15%nat (sha1_words (sha1_pad msg))).
