(* Model/HsCompose.v — executable definitions only.  The two halves of the opening handshake put together: the request a
   library client sends (dial.go handshakeRequest) as the server's Accept sees it, and the response Accept writes
   (accept.go:121-152) as the client's verifyServerResponse sees it. *)
From Coq Require Import List Arith Bool NArith.
From WS Require Import Base.Words Model.Proto Model.Fold Model.Base64 Model.Sha1 Model.Origin Model.Handshake.
Import ListNotations.

(* Dial's request: GET, HTTP/1.1, the headers of dial_headers (the caller's other headers do not matter to Accept) *)
Definition lib_request (host : bytes) (o : dopts) (key64 : bytes) : hreq :=
  {| q_method := s_GET; q_major := 1; q_minor := 1; q_host := host; q_hdrs := dial_headers o key64 |}.

(* what Accept answers with for a decision a: Upgrade / Connection / Sec-WebSocket-Accept, the subprotocol when one was
   selected, the extension header when compression was negotiated *)
Definition lib_response (a : aresult) : hresp :=
  {| p_status := ar_status a;
     p_hdrs := [(s_Upgrade, [s_websocket]); (s_Connection, [s_Upgrade]); (s_SecAccept, [ar_accept a])]
               ++ (match ar_subproto a with [] => [] | p => [(s_SecProtocol, [p])] end)
               ++ (match ar_copts a with Some c => [(s_SecExtensions, [render_copts c])] | None => [] end) |}.

(* a subprotocol name as a caller would give it: not empty, no comma, no white space at either end *)
Definition clean_token (t : bytes) : Prop := t <> [] /\ ~ In 44%N t /\ hs_trim t = t.
