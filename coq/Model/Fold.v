(* Model/Fold.v — executable model of the parts of Go 1.23.5 strings/unicode/utf8 used by
   authenticateOrigin: utf8.DecodeRuneInString, strings.ToLower, strings.EqualFold.
   Executable definitions only; every top-level name is prefixed [fold_].

   A Go string is its list of bytes (each < 256).  Behaviour on lists with an element >= 256
   is unspecified.

   DOMAIN OF AGREEMENT WITH GO (validated differentially, see gotest/):

   [fold_decode]  = utf8.DecodeRuneInString on every non-empty byte string (rune, width);
                    on "" Go returns (RuneError,0), the model returns (65533,1) and is never
                    called on "".

   [fold_lower s] = strings.ToLower s  exactly when every byte of s is < 128 (pure ASCII).
                    More generally it agrees whenever s is valid UTF-8 and every non-ASCII rune r
                    of s has unicode.ToLower r = r.  Bytes >= 128 are left unchanged by the
                    model, so it DIFFERS from Go on:
                      - non-ASCII upper-case runes      ("\xC3\x89" É  -> Go "\xC3\xA9" é)
                      - U+212A KELVIN SIGN E2 84 AA     (Go -> "k")      [lowers to ASCII]
                      - U+0130 I WITH DOT  C4 B0        (Go -> "i")      [lowers to ASCII]
                        (these two are the only non-ASCII runes whose ToLower is ASCII)
                      - invalid UTF-8 when the string has any byte >= 128
                        ("\xff" -> Go "\xEF\xBF\xBD": strings.Map re-encodes RuneError).

   [fold_eq a b]  = strings.EqualFold a b  whenever every non-ASCII rune r obtained by decoding
                    a and b with utf8.DecodeRuneInString (invalid byte = U+FFFD, width 1) is
                    either U+212A, U+017F or case-less (unicode.SimpleFold r = r).
                    In particular: all ASCII strings, ASCII mixed with KELVIN SIGN / LONG S,
                    and arbitrary INVALID UTF-8 (Go compares runes, so "\xff" and "\xfe" are
                    EqualFold-equal, and so they are here).  It DIFFERS from Go only when
                    a non-ASCII cased rune is involved (EqualFold "\xC3\x89" "\xC3\xA9" = true
                    in Go, false here). *)
From Coq Require Import List NArith Bool.
From WS Require Import Base.Words.
Import ListNotations.
Open Scope N_scope.

Definition fold_between (lo c hi : N) : bool := (lo <=? c) && (c <=? hi).

(* continuation byte, default range 0x80..0xBF *)
Definition fold_cont (c : N) : bool := fold_between 128 c 191.

(* utf8.RuneError *)
Definition fold_rune_error : N := 65533.

(* size (2,3,4) and accept range [lo,hi] for the second byte, from utf8.first/acceptRanges;
   None for ASCII (handled before) and invalid lead bytes. *)
Definition fold_lead (s0 : N) : option (nat * N * N) :=
  if fold_between 194 s0 223 then Some (2%nat, 128, 191)
  else if s0 =? 224 then Some (3%nat, 160, 191)
  else if s0 =? 237 then Some (3%nat, 128, 159)
  else if fold_between 225 s0 239 then Some (3%nat, 128, 191)
  else if s0 =? 240 then Some (4%nat, 144, 191)
  else if fold_between 241 s0 243 then Some (4%nat, 128, 191)
  else if s0 =? 244 then Some (4%nat, 128, 143)
  else None.

(* utf8.DecodeRuneInString on a non-empty string: (rune, width). *)
Definition fold_decode (s : bytes) : N * nat :=
  match s with
  | [] => (fold_rune_error, 1%nat)
  | s0 :: t =>
    if s0 <? 128 then (s0, 1%nat) else
    match fold_lead s0 with
    | None => (fold_rune_error, 1%nat)
    | Some (sz, lo, hi) =>
      if Nat.ltb (length s) sz then (fold_rune_error, 1%nat) else
      match t with
      | [] => (fold_rune_error, 1%nat)
      | s1 :: t1 =>
        if negb (fold_between lo s1 hi) then (fold_rune_error, 1%nat) else
        if Nat.leb sz 2 then ((s0 mod 32) * 64 + (s1 mod 64), 2%nat) else
        match t1 with
        | [] => (fold_rune_error, 1%nat)
        | s2 :: t2 =>
          if negb (fold_cont s2) then (fold_rune_error, 1%nat) else
          if Nat.leb sz 3 then ((s0 mod 16) * 4096 + (s1 mod 64) * 64 + (s2 mod 64), 3%nat) else
          match t2 with
          | [] => (fold_rune_error, 1%nat)
          | s3 :: _ =>
            if negb (fold_cont s3) then (fold_rune_error, 1%nat) else
            ((s0 mod 8) * 262144 + (s1 mod 64) * 4096 + (s2 mod 64) * 64 + (s3 mod 64), 4%nat)
          end
        end
      end
    end
  end.

(* ASCII 'A'..'Z' -> 'a'..'z', everything else unchanged *)
Definition fold_lower_byte (c : N) : N := if fold_between 65 c 90 then c + 32 else c.

(* strings.ToLower, ASCII domain (see header). *)
Definition fold_lower (s : bytes) : bytes := map fold_lower_byte s.

(* canonical representative of the SimpleFold orbit of a rune, on the documented domain:
   ASCII letters -> lower case, U+212A -> 'k', U+017F -> 's', everything else itself. *)
Definition fold_canon_rune (r : N) : N :=
  if r =? 8490 then 107 else if r =? 383 then 115 else fold_lower_byte r.

(* the sequence of canonical runes of a string, decoding as [for _, r := range s] does *)
Fixpoint fold_runes (fuel : nat) (s : bytes) : list N :=
  match fuel with
  | O => []
  | S f =>
    match s with
    | [] => []
    | _ :: _ => let '(r, n) := fold_decode s in fold_canon_rune r :: fold_runes f (skipn n s)
    end
  end.

Fixpoint fold_list_eqb (a b : list N) : bool :=
  match a, b with
  | [], [] => true
  | x :: a', y :: b' => (x =? y) && fold_list_eqb a' b'
  | _, _ => false
  end.

(* strings.EqualFold on the documented domain. *)
Definition fold_eq (a b : bytes) : bool :=
  fold_list_eqb (fold_runes (length a) a) (fold_runes (length b) b).
