(* Model/Origin.v — executable model of authenticateOrigin (accept.go:206-238) of /repo.
   [origin] is r.Header.Get("Origin"): None = header absent (Get returns ""). *)
From Coq Require Import List NArith Bool.
From WS Require Import Base.Words Model.Fold Model.Glob Model.Url.
Import ListNotations.
Open Scope N_scope.

Inductive origin_verdict := OAllow | ORefuse.

(* the loop over originHosts; match(pattern, s) = filepath.Match(ToLower pattern, ToLower s) *)
Fixpoint origin_patterns (h : bytes) (patterns : list bytes) : origin_verdict :=
  match patterns with
  | [] => ORefuse
  | p :: rest =>
    match glob_match (fold_lower p) (fold_lower h) with
    | GlobBad => ORefuse
    | GlobOk true => OAllow
    | GlobOk false => origin_patterns h rest
    end
  end.

Definition origin_authenticate (host : bytes) (origin : option bytes) (patterns : list bytes)
  : origin_verdict :=
  match origin with
  | None => OAllow
  | Some [] => OAllow
  | Some o =>
    match url_host_of o with
    | None => ORefuse
    | Some h => if fold_eq host h then OAllow else origin_patterns h patterns
    end
  end.
