(* Model/Window.v — executable definitions only.  Mirrors slidingWindow.write (compress.go:216-233):
   the dictionary a receiver keeps for context takeover, updated with every slice handed to the caller. *)
From Coq Require Import List Arith.
From WS Require Import Base.Words.
Import ListNotations.

Definition sw_write (cap : nat) (buf p : bytes) : bytes :=
  if Nat.leb cap (length p) then skipn (length p - cap) p                    (* p alone fills the window *)
  else
    let left := cap - length buf in
    if Nat.ltb left (length p) then skipn (length p - left) buf ++ p         (* shift out the oldest bytes *)
    else buf ++ p.

Definition sw_run (cap : nat) (ps : list bytes) : bytes := fold_left (sw_write cap) ps [].
