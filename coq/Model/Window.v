(* Model/Window.v — executable definitions only.  Mirrors slidingWindow.write (compress.go:216-233):
   the dictionary a receiver keeps for context takeover, updated with every slice handed to the caller. *)
From Coq Require Import List Arith.
From WS Require Import Base.Words.
Import ListNotations.

Definition sw_write (cap : nat) (buf p : bytes) : bytes :=
  if Nat.leb cap (length p) then skipn (length p - cap) p                    (* p alone fills the window *)
  else
    let left := cap - length buf in
    if Nat.ltb left (length p) then skipn (length p - left) buf ++ p         (* shift out the oldest bytes *)
    else buf ++ p.

Definition sw_run (cap : nat) (ps : list bytes) : bytes := fold_left (sw_write cap) ps [].

(* ---------------- trimLastFourBytesWriter.Write (compress.go:94-134), as a pure function: the chunks handed downstream and the new tail ---------------- *)
(* ---------------- the trim writer (compress.go:94-134), as a pure function on (tail, chunk) ---------------- *)
Definition trim_step (tail p : bytes) : list bytes * bytes :=
  let lt := length tail in let lp := length p in
  if Nat.leb (lt + lp) 4 then ([], tail ++ p)
  else
    let extra := Nat.min (lt + lp - 4) lt in
    let o1 := if Nat.ltb 0 extra then [firstn extra tail] else [] in
    let tail1 := skipn extra tail in
    if Nat.leb lp 4 then (o1, tail1 ++ p)
    else (o1 ++ [firstn (lp - 4) p], tail1 ++ skipn (lp - 4) p).


(* a whole stream of chunks: everything but the last four bytes goes downstream, in order; the tail is the last four *)
Fixpoint trim_run (tail : bytes) (ps : list bytes) : list bytes * bytes :=
  match ps with
  | [] => ([], tail)
  | p :: r => let '(o, t1) := trim_step tail p in let '(os, t2) := trim_run t1 r in (o ++ os, t2)
  end.

