(* Model/WsJson.v — executable definitions only.  wsjson.Write / wsjson.Read (wsjson/wsjson.go) over the connection's
   message layer; encoding/json is abstract (Section variables marshal / unmarshal). *)
From Coq Require Import List NArith ZArith Bool.
From WS Require Import Base.Words Gen.Consts.
Import ListNotations.

Section WsJson.
Variable value : Type.
Variable marshal : value -> option bytes.            (* json.Encoder.Encode without the trailing newline; None = marshal error *)
Variable unmarshal : bytes -> option value.          (* json.Unmarshal into the caller's target; None = error *)

(* what wsjson.Write puts on the connection: exactly one TEXT message, the encoding followed by '\n'
   (json.Encoder issues a single Write; the WriterFunc turns it into one c.Write) *)
Definition wj_write (v : value) : option (N * bytes) :=
  match marshal v with Some b => Some (1%N, b ++ [10%N]) | None => None end.

Inductive wjres := WJOk (v : value) | WJErrClosed1007 | WJErr.

(* wsjson.Read: one Reader, the whole message into a pooled buffer, Unmarshal; on failure Close(1007) *)
Definition wj_read (msgs : list (N * bytes)) : wjres * list (N * bytes) :=
  match msgs with
  | [] => (WJErr, [])
  | (_, p) :: rest => match unmarshal p with Some v => (WJOk v, rest) | None => (WJErrClosed1007, rest) end
  end.

Fixpoint wj_reads (n : nat) (msgs : list (N * bytes)) : list wjres :=
  match n with
  | O => []
  | S k => let '(r, rest) := wj_read msgs in
           match r with WJOk _ => r :: wj_reads k rest | _ => [r] end
  end.
End WsJson.
