(* Model/Glob.v — executable model of Go 1.23.5 path/filepath.Match on non-Windows
   (Separator = '/', '\\' escapes): Match, scanChunk, matchChunk, getEsc.
   Executable definitions only; every top-level name is prefixed [glob_].
   UTF-8 decoding is [fold_decode] from Model/Fold.v (= utf8.DecodeRuneInString).
   Strings are byte lists with every element < 256 (behaviour otherwise unspecified).
   [glob_match p n] = GlobOk b  iff filepath.Match(p,n) = (b,nil);
                    = GlobBad   iff filepath.Match(p,n) = (false,ErrBadPattern). *)
From Coq Require Import List NArith Bool.
From WS Require Import Base.Words Model.Fold.
Import ListNotations.
Open Scope N_scope.

Inductive glob_res := GlobOk (b : bool) | GlobBad.

(* result of matchChunk: error / (_, false, nil) / (rest, true, nil) *)
Inductive glob_cres := GlobCErr | GlobCFail | GlobCOk (rest : bytes).

Definition glob_is_nil (s : bytes) : bool := match s with [] => true | _ => false end.

(* leading stars of scanChunk *)
Fixpoint glob_strip_stars (p : bytes) : bool * bytes :=
  match p with
  | c :: r => if c =? 42 then (true, snd (glob_strip_stars r)) else (false, p)
  | [] => (false, [])
  end.

Definition glob_cons1 (c : N) (x : bytes * bytes) : bytes * bytes := (c :: fst x, snd x).

(* the Scan loop of scanChunk: (chunk, rest) *)
Fixpoint glob_scan (inrange : bool) (p : bytes) : bytes * bytes :=
  match p with
  | [] => ([], [])
  | c :: r =>
    if c =? 92 then
      match r with
      | [] => ([c], [])
      | d :: r' => glob_cons1 c (glob_cons1 d (glob_scan inrange r'))
      end
    else if c =? 91 then glob_cons1 c (glob_scan true r)
    else if c =? 93 then glob_cons1 c (glob_scan false r)
    else if (c =? 42) && negb inrange then ([], p)
    else glob_cons1 c (glob_scan inrange r)
  end.

(* getEsc: None = ErrBadPattern, Some (rune, nchunk) with nchunk non-empty *)
Definition glob_get_esc (chunk : bytes) : option (N * bytes) :=
  match chunk with
  | [] => None
  | c :: r =>
    if (c =? 45) || (c =? 93) then None else
    let chunk1 := if c =? 92 then r else chunk in
    match chunk1 with
    | [] => None
    | _ :: _ =>
      let '(rn, n) := fold_decode chunk1 in
      if (rn =? fold_rune_error) && Nat.eqb n 1 then None else
      match skipn n chunk1 with
      | [] => None
      | nc => Some (rn, nc)
      end
    end
  end.

(* the "parse all ranges" loop of a character class.  [r] is the rune under test,
   [nz] is (nrange > 0), [m] the accumulated match flag.
   None = ErrBadPattern, Some (match, chunk after ']').  Fuel: S (length chunk). *)
Fixpoint glob_class (fuel : nat) (chunk : bytes) (r : N) (nz m : bool) : option (bool * bytes) :=
  match fuel with
  | O => None
  | S f =>
    let continue_ (_ : unit) :=
      match glob_get_esc chunk with
      | None => None
      | Some (lo, ch1) =>
        match ch1 with
        | [] => None
        | d :: ch2 =>
          if d =? 45 then
            match glob_get_esc ch2 with
            | None => None
            | Some (hi, ch3) => glob_class f ch3 r true (m || ((lo <=? r) && (r <=? hi)))
            end
          else glob_class f ch1 r true (m || ((lo <=? r) && (r <=? lo)))
        end
      end in
    match chunk with
    | c :: rest => if (c =? 93) && nz then Some (m, rest) else continue_ tt
    | [] => continue_ tt
    end
  end.

(* matchChunk with its [failed] flag.  Fuel: length chunk. *)
Fixpoint glob_chunk (fuel : nat) (chunk s : bytes) (failed : bool) : glob_cres :=
  match chunk with
  | [] => if failed then GlobCFail else GlobCOk s
  | c :: ch =>
    match fuel with
    | O => GlobCErr
    | S f =>
      let failed := failed || glob_is_nil s in
      let literal (d : N) (ch' : bytes) :=
        if failed then glob_chunk f ch' s true else
        match s with
        | s0 :: s' => glob_chunk f ch' s' (negb (d =? s0))
        | [] => GlobCErr (* unreachable: failed would be true *)
        end in
      if c =? 91 then
        let '(r, s') := if failed then (0, s)
                        else let '(r, n) := fold_decode s in (r, skipn n s) in
        let '(neg, ch1) := match ch with
                           | d :: ch' => if d =? 94 then (true, ch') else (false, ch)
                           | [] => (false, ch)
                           end in
        match glob_class (S (length ch1)) ch1 r false false with
        | None => GlobCErr
        | Some (m, ch2) => glob_chunk f ch2 s' (failed || Bool.eqb m neg)
        end
      else if c =? 63 then
        if failed then glob_chunk f ch s true else
        match s with
        | s0 :: _ => let '(_, n) := fold_decode s in glob_chunk f ch (skipn n s) (s0 =? 47)
        | [] => GlobCErr (* unreachable *)
        end
      else if c =? 92 then
        match ch with
        | [] => GlobCErr
        | d :: ch' => literal d ch'
        end
      else literal c ch
    end
  end.

(* the "look for match skipping i+1 bytes" loop; [last] is (len(pattern) == 0) *)
Fixpoint glob_star (chunk name : bytes) (last : bool) : glob_cres :=
  match name with
  | [] => GlobCFail
  | c :: name' =>
    if c =? 47 then GlobCFail else
    match glob_chunk (length chunk) chunk name' false with
    | GlobCOk t => if last && negb (glob_is_nil t) then glob_star chunk name' last else GlobCOk t
    | GlobCErr => GlobCErr
    | GlobCFail => glob_star chunk name' last
    end
  end.

(* the Pattern loop of Match.  Fuel: length pattern. *)
Fixpoint glob_go (fuel : nat) (pattern name : bytes) : glob_res :=
  match pattern with
  | [] => GlobOk (glob_is_nil name)
  | _ :: _ =>
    match fuel with
    | O => GlobBad
    | S f =>
      let '(star, p1) := glob_strip_stars pattern in
      let '(chunk, rest) := glob_scan false p1 in
      if star && glob_is_nil chunk then GlobOk (negb (existsb (N.eqb 47) name)) else
      let last := glob_is_nil rest in
      let retry (_ : unit) :=
        if star then
          match glob_star chunk name last with
          | GlobCOk t => glob_go f rest t
          | GlobCErr => GlobBad
          | GlobCFail => GlobOk false
          end
        else GlobOk false in
      match glob_chunk (length chunk) chunk name false with
      | GlobCOk t => if glob_is_nil t || negb last then glob_go f rest t else retry tt
      | GlobCErr => GlobBad
      | GlobCFail => retry tt
      end
    end
  end.

Definition glob_match (pattern name : bytes) : glob_res :=
  glob_go (length pattern) pattern name.
