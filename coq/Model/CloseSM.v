(* Model/CloseSM.v — executable definitions only.  The close state machine of a connection as the API
   shows it: Close (close.go:100-129), CloseNow (close.go:133-156), the read side's reaction to a Close
   frame (read.go handleControl), and what every call returns once the connection is closed. *)
From Coq Require Import List NArith ZArith Bool.
From WS Require Import Base.Words Gen.Consts Gen.CloseCode Model.CloseCodec.
Import ListNotations.

Inductive capi :=
| ARead | AWrite | AWriter | APing            (* any call that needs an open connection *)
| AClose (code : Z) (reason : bytes)           (* Close(code, reason) *)
| ACloseNow
| APeerClose (payload : bytes).                (* the peer's Close frame is read by a pending / the next read *)

Inductive cres :=
| CNil                                         (* the call returned nil *)
| CErrClosed                                   (* an error matching net.ErrClosed *)
| CErrCloseFrame (code : Z) (reason : bytes)   (* a CloseError carrying the peer's code and reason *)
| CErr.                                        (* some other error *)

Record csm := { cs_closed : bool;              (* c.closed: the connection is closed for good *)
                cs_closing : bool;             (* casClosing: Close / CloseNow has been entered *)
                cs_close_sent : bool;          (* a Close frame has been written *)
                cs_wire : list bytes }.        (* payloads of the Close frames written, oldest first *)

Definition cs_init : csm := {| cs_closed := false; cs_closing := false; cs_close_sent := false; cs_wire := [] |}.

(* peer_echoes: does the (scripted) peer answer a Close frame with a Close frame carrying the same payload? *)
Definition csm_step (peer_echoes : bool) (s : csm) (op : capi) : csm * cres :=
  match op with
  | AClose code reason =>
    if cs_closing s then (s, CErrClosed) else                                   (* close.go:103-109 *)
    if cs_closed s then ({| cs_closed := true; cs_closing := true; cs_close_sent := cs_close_sent s; cs_wire := cs_wire s |}, CNil) else
    match close_payload code reason with
    | None =>                                                                   (* refused: nothing is written, Close errors, connection closed *)
      ({| cs_closed := true; cs_closing := true; cs_close_sent := cs_close_sent s; cs_wire := cs_wire s |}, CErr)
    | Some p =>
      let wire := if cs_close_sent s then cs_wire s else cs_wire s ++ [p] in
      ({| cs_closed := true; cs_closing := true; cs_close_sent := true; cs_wire := wire |},
       if peer_echoes && negb (cs_close_sent s) then CNil else CErr)
    end
  | ACloseNow =>
    if cs_closing s then (s, CErrClosed) else
    ({| cs_closed := true; cs_closing := true; cs_close_sent := cs_close_sent s; cs_wire := cs_wire s |}, CNil)
  | APeerClose payload =>
    if cs_closed s then (s, CErrClosed) else
    match parse_close payload with
    | None => ({| cs_closed := cs_closed s; cs_closing := cs_closing s; cs_close_sent := true;
                  cs_wire := if cs_close_sent s then cs_wire s else cs_wire s ++ [be_bytes 2 (Z.to_N c_StatusProtocolError)] |}, CErr)
    | Some (code, reason) =>
      let echo := match close_payload code reason with Some p => p | None => [] end in
      ({| cs_closed := true; cs_closing := cs_closing s; cs_close_sent := true;
          cs_wire := if cs_close_sent s then cs_wire s else cs_wire s ++ [echo] |}, CErrCloseFrame code reason)
    end
  | AWrite | AWriter =>
    if cs_closed s then (s, CErrClosed) else if cs_close_sent s then (s, CErr) (* nothing but pings/pongs after a Close frame *) else (s, CNil)
  | ARead | APing => if cs_closed s then (s, CErrClosed) else (s, CNil)
  end.

Fixpoint csm_run (peer_echoes : bool) (s : csm) (ops : list capi) : csm * list cres :=
  match ops with
  | [] => (s, [])
  | op :: r => let '(s1, o) := csm_step peer_echoes s op in let '(s2, os) := csm_run peer_echoes s1 r in (s2, o :: os)
  end.

Definition is_err (r : cres) : bool := match r with CNil => false | _ => true end.
