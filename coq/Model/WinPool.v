(* Model/WinPool.v — executable definitions only.  The pooled sliding windows of compress.go (swPool, slidingWindow.init /
   write / close) as the connections of one process share them: a window is a backing ARRAY of fixed capacity of which only
   the first len bytes (buf[:len], here w_vis) are ever handed to the inflater as its dictionary; the rest of the array
   (w_junk) keeps whatever was written there before — also by the connection that held the array earlier. *)
From Coq Require Import List Arith Bool NArith.
From WS Require Import Base.Words Model.Proto Model.Window.
Import ListNotations.
Close Scope N_scope.
Open Scope nat_scope.

Record win := { w_vis : bytes;      (* sw.buf = array[:len] *)
                w_junk : bytes }.   (* array[len:cap] *)

Definition win_fresh (cap : nat) : win := {| w_vis := []; w_junk := repeat 0%N cap |}.   (* make([]byte, 0, n) *)

(* slidingWindow.write, on the array *)
Definition win_write (cap : nat) (w : win) (p : bytes) : win :=
  if Nat.leb cap (length p) then
    (* sw.buf = sw.buf[:cap]; copy(sw.buf, p[len(p)-cap:]) *)
    {| w_vis := skipn (length p - cap) p; w_junk := [] |}
  else
    let left := cap - length (w_vis w) in
    let vj := if Nat.ltb left (length p)
              then (* copy(sw.buf, sw.buf[spaceNeeded:]); sw.buf = sw.buf[:len-spaceNeeded]: the tail of the old contents stays in the array *)
                let sp := length p - left in
                (skipn sp (w_vis w), skipn (length (w_vis w) - sp) (w_vis w) ++ w_junk w)
              else (w_vis w, w_junk w) in
    (* append(sw.buf, p...) within the capacity: in place *)
    {| w_vis := fst vj ++ p; w_junk := skipn (length p) (snd vj) |}.

(* slidingWindow.close: sw.buf = sw.buf[:0] — the bytes stay in the array *)
Definition win_reset (w : win) : win := {| w_vis := []; w_junk := w_vis w ++ w_junk w |}.

Definition wid := nat.   (* identity of a backing array *)
Definition wcid := nat.  (* connection *)

Inductive winop :=
| WinGet (c : wcid) (a : wid)       (* resetFlate -> dict.init: sync.Pool hands out array a if it is pooled, otherwise a new array a is made *)
| WinWrite (c : wcid) (p : bytes)   (* msgReader.Read: dict.write(p[:n]) *)
| WinPut (c : wcid).                (* msgReader.release: dict.close() *)

Record wst := { ws_conn : wcid -> option (wid * win);   (* the window a connection's msgReader holds *)
                ws_pool : list (wid * win);
                ws_own : wcid -> bytes }.               (* ghost: what the connection has written since it took its window *)

Definition winit : wst := {| ws_conn := fun _ => None; ws_pool := []; ws_own := fun _ => [] |}.

Definition upd {A} (f : wcid -> A) (c : wcid) (x : A) : wcid -> A := fun c' => if Nat.eqb c' c then x else f c'.
Arguments upd : simpl never.

Fixpoint pool_take (a : wid) (l : list (wid * win)) : option (win * list (wid * win)) :=
  match l with
  | [] => None
  | (a', w) :: r => if Nat.eqb a' a then Some (w, r)
                    else match pool_take a r with Some (w', r') => Some (w', (a', w) :: r') | None => None end
  end.

(* None: the operation is impossible here (writing to or returning a window that is not held) *)
Definition wstep (cap : nat) (s : wst) (op : winop) : option wst :=
  match op with
  | WinGet c a =>
    match ws_conn s c with
    | Some _ => Some s                                   (* init: sw.buf != nil, nothing happens *)
    | None =>
      match pool_take a (ws_pool s) with
      | Some (w, rest) => Some {| ws_conn := upd (ws_conn s) c (Some (a, w)); ws_pool := rest; ws_own := upd (ws_own s) c [] |}
      | None => Some {| ws_conn := upd (ws_conn s) c (Some (a, win_fresh cap)); ws_pool := ws_pool s; ws_own := upd (ws_own s) c [] |}
      end
    end
  | WinWrite c p =>
    match ws_conn s c with
    | Some (a, w) => Some {| ws_conn := upd (ws_conn s) c (Some (a, win_write cap w p)); ws_pool := ws_pool s;
                             ws_own := upd (ws_own s) c (ws_own s c ++ p) |}
    | None => None
    end
  | WinPut c =>
    match ws_conn s c with
    | Some (a, w) => Some {| ws_conn := upd (ws_conn s) c None; ws_pool := (a, win_reset w) :: ws_pool s; ws_own := upd (ws_own s) c [] |}
    | None => None
    end
  end.

Fixpoint wrun (cap : nat) (s : wst) (ops : list winop) : option wst :=
  match ops with
  | [] => Some s
  | op :: r => match wstep cap s op with Some s' => wrun cap s' r | None => None end
  end.

Definition wop_conn (op : winop) : wcid := match op with WinGet c _ | WinWrite c _ | WinPut c => c end.

(* the operations of connection c alone *)
Definition wproj (c : wcid) (ops : list winop) : list winop := filter (fun op => Nat.eqb (wop_conn op) c) ops.

(* the dictionary connection c hands to its inflater (empty when it holds no window) *)
Definition wdict (s : wst) (c : wcid) : bytes := match ws_conn s c with Some (_, w) => w_vis w | None => [] end.

(* the whole array of c's window, for the correspondence check *)
Definition warray (s : wst) (c : wcid) : bytes := match ws_conn s c with Some (_, w) => w_vis w ++ w_junk w | None => [] end.

(* what connection c has written since it last took a window, read off c's OWN operations alone *)
Fixpoint own_of (held : bool) (acc : bytes) (ops : list winop) : bytes :=
  match ops with
  | [] => acc
  | WinGet _ _ :: r => if held then own_of true acc r else own_of true [] r
  | WinWrite _ p :: r => own_of held (acc ++ p) r
  | WinPut _ :: r => own_of false [] r
  end.
