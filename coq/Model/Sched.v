(* Model/Sched.v — executable definitions only.  Small-step INTERLEAVING semantics of the write side's
   synchronisation skeleton (conn.go mu / close, write.go writeFrame / msgWriter, close.go Close / CloseNow):
   any number of goroutines calling Write / Writer / Ping / Close / CloseNow on one connection, scheduled
   one micro-step at a time in ANY order; the connection may also be closed from outside (timeoutLoop,
   a failed read) at any moment.  Theorems quantify over all schedules (Proofs/SchedP.v).

   Mutexes are the one-slot channels of conn.go:226-291: lock may fail when the connection is closed (the select
   may pick <-closed), re-checks closed after acquiring, and unlock is not owner-checked. *)
From Coq Require Import List Arith Bool.
Import ListNotations.

Definition tid := nat.

(* what one goroutine is asked to do, in program order *)
Inductive wcall :=
| CMsg (k : nat) (parts : nat)      (* a data message of k+1 frames (Write: k = 0; Writer with k Write calls + Close), each frame written in parts+1 transport writes *)
| CPing (parts : nat)               (* writeControl(opPing) *)
| CClose (parts : nat)              (* Close: Close frame, then close() *)
| CCloseNow                         (* CloseNow: close() *)
| CEcho (parts : nat).              (* the read side answering the peer's Close frame: writeClose, then close() — no casClosing (read.go handleControl) *)

Inductive fkind := FData | FPing | FClose.

(* one transport write: thread, sequence number of the call within the thread, frame index within the message, kind, first/fin flags, part index *)
Record wev := { e_tid : tid; e_call : nat; e_frame : nat; e_kind : fkind; e_first : bool; e_fin : bool; e_part : nat; e_last : bool (* last part of its frame *) }.

Inductive phase :=
| Idle
| WantMsg (k parts : nat)                           (* msgWriter.reset: about to lock msgWriter.mu                         write.go:124-138 *)
| WantFrame (fk : fkind) (k parts fi : nat)         (* writeFrame: about to lock writeFrameMu (fi = index of this frame)   write.go:245-250 *)
| Check (fk : fkind) (k parts fi : nat)             (* holds writeFrameMu: closeSent check, then select closed / arm       write.go:252-256 *)
| Emit (fk : fkind) (k parts fi : nat) (p : nat)    (* holds writeFrameMu: part p of parts+1 is next                       write.go:289-304 *)
| Unlock (fk : fkind) (k parts fi : nat)            (* frame complete: select closed / re-arm, unlock writeFrameMu         write.go:306-315 *)
| FailFrame (fk : fkind) (k : nat)                  (* error while holding writeFrameMu: unlock it and return the error *)
| EndMsg                                            (* message complete: unlock msgWriter.mu                               write.go:111,219 *)
| DoClose                                           (* close(): set closed, close the transport                            conn.go:147-165 *)
| ForceFrame.                                       (* msgWriter.close(): forceLock writeFrameMu (client) — blocks until it is free   write.go:223-231 *)

Record thr := { ph : phase; calls : list wcall; ncall : nat;    (* ncall: index of the current call *)
                results : list bool }.                           (* per finished call: true = returned nil, newest first *)

Record st := {
  msg_mu : option tid;            (* msgWriter.mu holder *)
  frame_mu : option tid;          (* writeFrameMu holder *)
  closed : bool;                  (* c.closed; the transport is closed too (every later write fails) *)
  closing : bool;                 (* casClosing *)
  close_sent : bool;              (* a Close frame has been started (set under writeFrameMu) *)
  client : bool;                  (* role: close() force-locks writeFrameMu only for clients *)
  thrs : tid -> thr;
  wire : list wev }.              (* transport writes, oldest first *)

Definition upd (f : tid -> thr) (i : tid) (x : thr) : tid -> thr := fun j => if Nat.eqb j i then x else f j.
Arguments upd : simpl never.

Definition set_ph (th : thr) (p : phase) : thr := {| ph := p; calls := calls th; ncall := ncall th; results := results th |}.
(* the current call returns: pop it, record the result *)
Definition ret (th : thr) (ok : bool) : thr :=
  {| ph := Idle; calls := tl (calls th); ncall := S (ncall th); results := ok :: results th |}.

Definition with_thr (s : st) (t : tid) (th : thr) : st :=
  {| msg_mu := msg_mu s; frame_mu := frame_mu s; closed := closed s; closing := closing s; close_sent := close_sent s; client := client s;
     thrs := upd (thrs s) t th; wire := wire s |}.

(* A schedule event: thread t takes its next micro-step.  [alt] resolves the nondeterminism of select: at a lock
   step, alt = true asks for the "<-closed" branch (only possible when closed).  EClose: the connection is closed by
   somebody else (timeoutLoop on a done context, the read side) — possible at any moment. *)
Inductive ev := EStep (t : tid) (alt : bool) | EClose
  | EGiveUp (t : tid).   (* the context of t's current call ends while t waits for a lock (conn.go mu.lock: case <-ctx.Done()) *)

Definition release_msg (s : st) : option tid := None.     (* mu.unlock: drains the slot whoever holds it *)

Definition step (s : st) (e : ev) : option st :=
  match e with
  | EClose => if closed s then None else
      Some {| msg_mu := msg_mu s; frame_mu := frame_mu s; closed := true; closing := closing s; close_sent := close_sent s; client := client s;
              thrs := thrs s; wire := wire s |}
  | EGiveUp t =>
    (* mu.lock returns the context's error: nothing was acquired.  Waiting for msgWriter.mu: the call fails, nothing else changes.
       Waiting for writeFrameMu: Conn.Write's single-frame message gives msgWriter.mu back (deferred unlock, write.go:108); a streamed
       message keeps it (the Writer was not closed); a Ping just fails.  Close is not covered (its contexts are its own 5 s ones). *)
    let th := thrs s t in
    match ph th with
    | WantMsg _ _ => Some (with_thr s t (ret th false))
    | WantFrame FData k _ fi =>
        if Nat.eqb k 0 && Nat.eqb fi 0 then
          Some {| msg_mu := None; frame_mu := frame_mu s; closed := closed s; closing := closing s; close_sent := close_sent s; client := client s;
                  thrs := upd (thrs s) t (ret th false); wire := wire s |}
        else Some (with_thr s t (ret th false))
    | WantFrame FPing _ _ _ => Some (with_thr s t (ret th false))
    | _ => None
    end
  | EStep t alt =>
    let th := thrs s t in
    match ph th with
    | Idle =>
      match calls th with
      | [] => None
      | CMsg k parts :: _ => Some (with_thr s t (set_ph th (WantMsg k parts)))
      | CPing parts :: _ => Some (with_thr s t (set_ph th (WantFrame FPing 0 parts 0)))
      | CClose parts :: _ =>
          if closing s then Some (with_thr s t (ret th false))                       (* casClosing failed: net.ErrClosed *)
          else Some {| msg_mu := msg_mu s; frame_mu := frame_mu s; closed := closed s; closing := true; close_sent := close_sent s; client := client s;
                       thrs := upd (thrs s) t (set_ph th (WantFrame FClose 0 parts 0)); wire := wire s |}
      | CCloseNow :: _ =>
          if closing s then Some (with_thr s t (ret th false))
          else Some {| msg_mu := msg_mu s; frame_mu := frame_mu s; closed := closed s; closing := true; close_sent := close_sent s; client := client s;
                       thrs := upd (thrs s) t (set_ph th DoClose); wire := wire s |}
      | CEcho parts :: _ => Some (with_thr s t (set_ph th (WantFrame FClose 0 parts 0)))
      end
    | WantMsg k parts =>
      if alt then (if closed s then Some (with_thr s t (ret th false)) else None)
      else match msg_mu s with
           | Some _ => None                                                           (* blocked *)
           | None => if closed s then Some (with_thr s t (ret th false))              (* acquired, saw closed, released *)
                     else Some {| msg_mu := Some t; frame_mu := frame_mu s; closed := closed s; closing := closing s; close_sent := close_sent s; client := client s;
                                  thrs := upd (thrs s) t (set_ph th (WantFrame FData k parts 0)); wire := wire s |}
           end
    | WantFrame fk k parts fi =>
      (* failing to get the frame lock: a data writer keeps msgWriter.mu (write.go: mu stays locked on error) unless it is Conn.Write's single frame;
         Close carries on to close() *)
      let fail := match fk with FClose => set_ph th DoClose | _ => ret th false end in
      if alt then
        (if closed s then Some (with_thr s t fail)
         else match fk with
              | FData =>
                (* a compressed message after the Close frame: the retained flate.Writer carries the refusal of an earlier
                   write as a sticky error, so the write is refused without ever reaching writeFrame; msgWriter.mu is released *)
                if close_sent s then
                  Some {| msg_mu := None; frame_mu := frame_mu s; closed := closed s; closing := closing s; close_sent := close_sent s; client := client s;
                          thrs := upd (thrs s) t (ret th false); wire := wire s |}
                else None
              | _ => None
              end)
      else match frame_mu s with
           | Some _ => None
           | None => if closed s then Some (with_thr s t fail)
                     else Some {| msg_mu := msg_mu s; frame_mu := Some t; closed := closed s; closing := closing s; close_sent := close_sent s; client := client s;
                                  thrs := upd (thrs s) t (set_ph th (Check fk k parts fi)); wire := wire s |}
           end
    | Check fk k parts fi =>
      (* RFC 6455 5.5.1 check, then select { <-closed | writeTimeout <- ctx } *)
      if close_sent s && match fk with FPing => false | _ => true end then Some (with_thr s t (set_ph th (FailFrame fk k)))
      else if closed s then Some (with_thr s t (set_ph th (FailFrame fk k)))
      else Some {| msg_mu := msg_mu s; frame_mu := frame_mu s; closed := closed s; closing := closing s;
                   close_sent := close_sent s || match fk with FClose => true | _ => false end; client := client s;
                   thrs := upd (thrs s) t (set_ph th (Emit fk k parts fi 0)); wire := wire s |}
    | Emit fk k parts fi p =>
      if closed s then Some (with_thr s t (set_ph th (FailFrame fk k)))               (* the transport is closed: the write fails *)
      else
        let e := {| e_tid := t; e_call := ncall th; e_frame := fi; e_kind := fk; e_first := Nat.eqb fi 0; e_fin := Nat.eqb k 0; e_part := p; e_last := negb (Nat.ltb p parts) |} in
        Some {| msg_mu := msg_mu s; frame_mu := frame_mu s; closed := closed s; closing := closing s; close_sent := close_sent s; client := client s;
                thrs := upd (thrs s) t (set_ph th (if Nat.ltb p parts then Emit fk k parts fi (S p) else Unlock fk k parts fi));
                wire := wire s ++ [e] |}
    | Unlock fk k parts fi =>
      let next := match fk with
                  | FData => if Nat.eqb k 0 then set_ph th EndMsg else set_ph th (WantFrame FData (k - 1) parts (S fi))
                  | FPing => ret th (negb (closed s))
                  | FClose => set_ph th DoClose
                  end in
      Some {| msg_mu := msg_mu s; frame_mu := None; closed := closed s; closing := closing s; close_sent := close_sent s; client := client s;
              thrs := upd (thrs s) t next; wire := wire s |}
    | FailFrame fk k =>
      (* unlock writeFrameMu; a data writer refused because the Close frame was sent also releases msgWriter.mu (write.go releaseIfCloseSent);
         Conn.Write's deferred unlock does so in any case for single-frame messages — both are covered by releasing when close_sent or k = 0 *)
      let rel_msg := match fk with FData => close_sent s | _ => false end in
      let next := match fk with FClose => set_ph th DoClose | _ => ret th false end in
      Some {| msg_mu := if rel_msg then None else msg_mu s; frame_mu := None; closed := closed s; closing := closing s; close_sent := close_sent s; client := client s;
              thrs := upd (thrs s) t next; wire := wire s |}
    | EndMsg =>
      Some {| msg_mu := None; frame_mu := frame_mu s; closed := closed s; closing := closing s; close_sent := close_sent s; client := client s;
              thrs := upd (thrs s) t (ret th (negb (closed s))); wire := wire s |}
    | DoClose =>
      (* conn.go close(): under closeMu; when the connection is already closed it returns at once, so msgWriter.close() (the force-lock of
         writeFrameMu on a client) runs at most once per connection *)
      if closed s then Some (with_thr s t (ret th true))
      else Some {| msg_mu := msg_mu s; frame_mu := frame_mu s; closed := true; closing := closing s; close_sent := close_sent s; client := client s;
                   thrs := upd (thrs s) t (if client s then set_ph th ForceFrame else ret th true); wire := wire s |}
    | ForceFrame =>
      match frame_mu s with
      | Some _ => None                                                                (* blocks until the frame in flight has been given up *)
      | None => Some {| msg_mu := msg_mu s; frame_mu := Some t; closed := closed s; closing := closing s; close_sent := close_sent s; client := client s;
                        thrs := upd (thrs s) t (ret th true); wire := wire s |}
      end
    end
  end.

(* a schedule is any list of events; events that are not enabled are skipped *)
Fixpoint run (s : st) (sched : list ev) : st :=
  match sched with
  | [] => s
  | e :: r => match step s e with Some s' => run s' r | None => run s r end
  end.

Definition init (is_client : bool) (progs : tid -> list wcall) : st :=
  {| msg_mu := None; frame_mu := None; closed := false; closing := false; close_sent := false; client := is_client;
     thrs := fun t => {| ph := Idle; calls := progs t; ncall := 0; results := [] |}; wire := [] |}.

(* ---------------- the properties, as decidable scans of the wire ---------------- *)
Definition same_frame (a b : wev) : bool := Nat.eqb (e_tid a) (e_tid b) && Nat.eqb (e_call a) (e_call b) && Nat.eqb (e_frame a) (e_frame b).
Definition same_msg (a b : wev) : bool := Nat.eqb (e_tid a) (e_tid b) && Nat.eqb (e_call a) (e_call b).
Definition is_data (a : wev) : bool := match e_kind a with FData => true | _ => false end.
Definition is_close (a : wev) : bool := match e_kind a with FClose => true | _ => false end.

(* frames are written atomically: a transport write either continues the frame of the previous write with the next part,
   or — only after the LAST part of that frame — starts a new frame at part 0 *)
Fixpoint frames_atomic (prev : option wev) (w : list wev) : bool :=
  match w with
  | [] => true
  | e :: r =>
    (match prev with
     | None => Nat.eqb (e_part e) 0
     | Some p => if e_last p then Nat.eqb (e_part e) 0 else same_frame p e && Nat.eqb (e_part e) (S (e_part p))
     end) && frames_atomic (Some e) r
  end.

(* data frames of two messages are never interleaved: while a data message is open (its first frame has started and the last
   part of its fin frame has not been written) every data write belongs to it; a message starts with its first frame *)
Fixpoint msgs_unmixed (open : option wev) (w : list wev) : bool :=
  match w with
  | [] => true
  | e :: r =>
    if is_data e then
      (match open with
       | Some o => same_msg o e
       | None => e_first e && Nat.eqb (e_part e) 0
       end) && msgs_unmixed (if e_fin e && e_last e then None else Some e) r
    else msgs_unmixed open r
  end.

(* nothing but Pings follows the first part of a Close frame, except the remaining parts of that Close frame *)
Fixpoint after_close (c : option wev) (w : list wev) : bool :=
  match w with
  | [] => true
  | e :: r =>
    match c with
    | Some c0 => (match e_kind e with FPing => true | FClose => same_frame c0 e | FData => false end) && after_close c r
    | None => after_close (if is_close e then Some e else None) r
    end
  end.

(* each goroutine's transport writes appear in its program order: (call, frame, part) strictly increases *)
Definition lex_lt (a b : wev) : Prop :=
  e_call a < e_call b \/ (e_call a = e_call b /\ (e_frame a < e_frame b \/ (e_frame a = e_frame b /\ e_part a < e_part b))).
Definition thread_order (w : list wev) : Prop :=
  forall i j a b, i < j -> nth_error w i = Some a -> nth_error w j = Some b -> e_tid a = e_tid b -> lex_lt a b.
