(* Model/NetConn.v — executable definitions only.  The net.Conn adapter (netconn.go) at the level of messages:
   what its Read returns given the messages / close / failure the underlying connection delivers, and the
   deadline state machine of one side (read or write). *)
From Coq Require Import List NArith ZArith Bool.
From WS Require Import Base.Words Gen.Consts.
Import ListNotations.

(* what the underlying *websocket.Conn delivers to successive Reader calls *)
Inductive nin :=
| NMsg (typ : N) (p : bytes)          (* a complete data message *)
| NClose (code : Z)                   (* the peer's Close frame: Reader fails with a CloseError *)
| NFail.                              (* any other failure of the connection *)

Inductive nres :=
| NData (d : bytes)                   (* n > 0 bytes, err == nil *)
| NEOF                                (* io.EOF *)
| NErrClose (code : Z)                (* the CloseError is passed through *)
| NErrType                            (* wrong message type: the connection was closed with status 1003 *)
| NErr                                (* some other error *)
| NBlock.                             (* nothing more to read yet *)

Record ncst := { nc_typ : N;                    (* msgType *)
                 nc_cur : option bytes;          (* nc.reader: the unread rest of the current message *)
                 nc_eofed : bool;                (* readEOFed *)
                 nc_in : list nin;               (* what the connection will deliver *)
                 nc_closed1003 : bool }.         (* Close(StatusUnsupportedData) was called *)

(* netConn.Read (netconn.go:139-188) with a buffer of n > 0 bytes; fuel bounds the loop over empty messages *)
Fixpoint nc_read (fuel : nat) (s : ncst) (n : nat) : nres * ncst :=
  match fuel with
  | O => (NBlock, s)
  | S f =>
    if nc_eofed s then (NEOF, s) else
    match nc_cur s with
    | Some cur =>
      match cur with
      | [] => (* the reader reports io.EOF: nc.reader = nil, n = 0: loop *)
        nc_read f {| nc_typ := nc_typ s; nc_cur := None; nc_eofed := false; nc_in := nc_in s; nc_closed1003 := nc_closed1003 s |} n
      | _ => (NData (firstn n cur), {| nc_typ := nc_typ s; nc_cur := Some (skipn n cur); nc_eofed := false; nc_in := nc_in s; nc_closed1003 := nc_closed1003 s |})
      end
    | None =>
      match nc_in s with
      | [] => (NBlock, s)
      | NMsg t p :: r =>
        if negb (t =? nc_typ s)%N then
          (NErrType, {| nc_typ := nc_typ s; nc_cur := None; nc_eofed := false; nc_in := r; nc_closed1003 := true |})
        else nc_read f {| nc_typ := nc_typ s; nc_cur := Some p; nc_eofed := false; nc_in := r; nc_closed1003 := nc_closed1003 s |} n
      | NClose code :: r =>
        if ((code =? c_StatusNormalClosure) || (code =? c_StatusGoingAway))%Z then
          (NEOF, {| nc_typ := nc_typ s; nc_cur := None; nc_eofed := true; nc_in := r; nc_closed1003 := nc_closed1003 s |})
        else (NErrClose code, {| nc_typ := nc_typ s; nc_cur := None; nc_eofed := false; nc_in := r; nc_closed1003 := nc_closed1003 s |})
      | NFail :: r => (NErr, {| nc_typ := nc_typ s; nc_cur := None; nc_eofed := false; nc_in := r; nc_closed1003 := nc_closed1003 s |})
      end
    end
  end.

Fixpoint nc_reads (s : ncst) (sizes : list nat) : list nres * ncst :=
  match sizes with
  | [] => ([], s)
  | n :: r => let '(o, s1) := nc_read (2 * length (nc_in s) + 3) s n in
              match o with
              | NData _ => let '(os, s2) := nc_reads s1 r in (o :: os, s2)
              | _ => ([o], s1)          (* the harness stops at the first non-data result, except it keeps reading after EOF to see it is sticky *)
              end
  end.

Definition nc_init (typ : N) (inp : list nin) : ncst := {| nc_typ := typ; nc_cur := None; nc_eofed := false; nc_in := inp; nc_closed1003 := false |}.
Definition nres_bytes (o : nres) : bytes := match o with NData d => d | _ => [] end.

(* ---- deadlines of one side (netconn.go:38-67, 200-237): a timer whose firing does tryLock ---- *)
Record dlst := { dl_expired : bool;        (* readExpired / writeExpired *)
                 dl_busy : bool;           (* a call holds nc.readMu / nc.writeMu *)
                 dl_cancelled : bool }.    (* the side's context was cancelled (=> the active call fails and the connection closes) *)
Inductive dlev := DFire | DSet | DCallStart | DCallEnd.
Inductive dlout := DOk | DDeadlineErr | DNone.
Definition dl_step (s : dlst) (e : dlev) : dlst * dlout :=
  match e with
  | DFire => if dl_busy s then ({| dl_expired := dl_expired s; dl_busy := true; dl_cancelled := true |}, DNone)
             else ({| dl_expired := true; dl_busy := false; dl_cancelled := dl_cancelled s |}, DNone)
  | DSet => ({| dl_expired := false; dl_busy := dl_busy s; dl_cancelled := dl_cancelled s |}, DNone)          (* Set*Deadline clears the flag (any time value) *)
  | DCallStart => if dl_expired s then (s, DDeadlineErr)
                  else ({| dl_expired := false; dl_busy := true; dl_cancelled := dl_cancelled s |}, DOk)
  | DCallEnd => ({| dl_expired := dl_expired s; dl_busy := false; dl_cancelled := dl_cancelled s |}, DNone)
  end.
