(* Model/Proto.v — shared vocabulary: roles, negotiated options, frames on the wire. Definitions only. *)
From Coq Require Import List NArith ZArith Bool.
From WS Require Import Base.Words Model.Mask Model.Frame.
Import ListNotations.
Open Scope N_scope.

Inductive role := Client | Server.
Definition peer (r : role) : role := match r with Client => Server | Server => Client end.
Definition role_eqb (a b : role) : bool := match a, b with Client, Client => true | Server, Server => true | _, _ => false end.

(* compressionOptions (compress.go:60-63) *)
Record copts := { cnct : bool; snct : bool }.

(* msgWriter.flateContextTakeover (write.go:89-94) / msgReader.flateContextTakeover (read.go:164-169) *)
Definition writer_takeover (r : role) (c : copts) : bool := match r with Client => negb (cnct c) | Server => negb (snct c) end.
Definition reader_takeover (r : role) (c : copts) : bool := match r with Client => negb (snct c) | Server => negb (cnct c) end.

Definition frame := (hdr * bytes)%type.                  (* payload kept UNmasked *)

Definition enc_frame (f : frame) : bytes :=
  let '(h, p) := f in enc_hdr h ++ (if h_masked h then mask_spec (h_key h) p else p).

Definition is_control (o : N) : bool := 8 <=? o.
Definition is_data_first (o : N) : bool := (o =? 1) || (o =? 2).

Definition lastn {A} (n : nat) (l : list A) : list A := skipn (length l - n) l.
