(* Model/Reader.v — executable definitions only.  Mirrors /repo/read.go (Reader, msgReader.Read/read,
   readLoop, handleControl, limitReader) and the parts of write.go/close.go the read side calls
   (Pong reply, close echo, error closes).  The inflater is an oracle [inflate]. *)
From Coq Require Import List NArith ZArith Bool.
From WS Require Import Base.Words Gen.Consts Gen.CloseCode Model.Mask Model.Frame Model.Proto Model.CloseCodec Model.RefDecoder.
Import ListNotations.
Open Scope N_scope.

Inductive ending := EOpen | EEof | EFail.

(* linear-time reverse (List.rev is quadratic); rev_alt: rev l = rev_append l [] *)
Definition frev {A} (l : list A) : list A := rev_append l [].
(* size of the bufio.Reader the flate reader pulls through (bufio default, dial.go getBufioReader) *)
Definition bufio_size : nat := Z.to_nat 4096.

(* canonical error classes (what the harness can observe through errors.Is/As) *)
Inductive rerr :=
| RECloseErr (code : Z) (reason : bytes)      (* a Close frame was received: CloseError *)
| REOther                                     (* protocol violation, corrupt deflate data, negative length … *)
| RETransEof | RETransFail                    (* the transport ended / failed *)
| RELimit                                     (* read limit exceeded *)
| REClosed                                    (* net.ErrClosed *)
| REUsage                                     (* previous message not read to completion *)
| REBlocked.                                  (* would block: the script ends here (transport still open) *)

(* frames the read side writes *)
Inductive reply :=
| RpPong (p : bytes)
| RpClose (code : Z) (reason : option bytes).   (* None: an error close whose reason text is not modelled *)

Record rcfg := { rc_role : role; rc_co : option copts }.

Record rst := {
  r_inq : bytes; r_end : ending;                 (* what the transport will still deliver, and how it ends *)
  r_closed : bool;                               (* c.closed                                   conn.go:147 *)
  r_close_sent : bool;                           (* a Close frame has been written             write.go writeFrame *)
  r_limit : Z;                                   (* limitReader.limit as stored (n+1, negative = off)   read.go:97-105 *)
  r_fin : bool; r_plen : N; r_key : key;         (* msgReader.fin / payloadLength / maskKey    read.go:374-376 *)
  r_flate : bool;                                (* msgReader.flate = rsv1 of the first frame  read.go:384 *)
  r_lrn : Z;                                     (* limitReader.n *)
  r_zout : bytes;                                (* inflated bytes not yet handed out (compressed message, pulled eagerly) *)
  r_zpulled : bool;                              (* the compressed message has been pulled from the transport *)
  r_zerr : option rerr;                          (* how the pull ended: None = complete message *)
  r_zall : bytes;                                (* everything the current compressed message inflates to *)
  r_dict : bytes;                                (* msgReader.dict: last 32 KiB delivered by compressed messages (takeover) *)
  r_replies : list reply;                        (* frames written by the read side, oldest first *)
  r_pongs : list bytes }.                        (* Pong payloads received (notifications to Ping callers) *)

Definition r_init (limit : Z) (inq : bytes) (e : ending) : rst :=
  {| r_inq := inq; r_end := e; r_closed := false; r_close_sent := false; r_limit := limit;
     r_fin := true; r_plen := 0; r_key := zero_key; r_flate := false; r_lrn := limit;
     r_zout := []; r_zpulled := false; r_zerr := None; r_zall := []; r_dict := []; r_replies := []; r_pongs := [] |}.

Inductive res (A : Type) := Ok (a : A) (s : rst) | Err (e : rerr) (s : rst).
Arguments Ok {A}. Arguments Err {A}.

Definition end_err (s : rst) : rerr := match r_end s with EOpen => REBlocked | EEof => RETransEof | EFail => RETransFail end.

Definition set_inq (s : rst) (q : bytes) : rst :=
  {| r_inq := q; r_end := r_end s; r_closed := r_closed s; r_close_sent := r_close_sent s; r_limit := r_limit s;
     r_fin := r_fin s; r_plen := r_plen s; r_key := r_key s; r_flate := r_flate s; r_lrn := r_lrn s;
     r_zout := r_zout s; r_zpulled := r_zpulled s; r_zerr := r_zerr s; r_zall := r_zall s; r_dict := r_dict s; r_replies := r_replies s; r_pongs := r_pongs s |}.

(* writeFrame for the read side's replies: a Close frame is written at most once; Pongs always (write.go) *)
Definition add_reply (s : rst) (r : reply) : rst :=
  let is_close := match r with RpClose _ _ => true | _ => false end in
  if is_close && r_close_sent s then s else
  {| r_inq := r_inq s; r_end := r_end s; r_closed := r_closed s; r_close_sent := r_close_sent s || is_close; r_limit := r_limit s;
     r_fin := r_fin s; r_plen := r_plen s; r_key := r_key s; r_flate := r_flate s; r_lrn := r_lrn s;
     r_zout := r_zout s; r_zpulled := r_zpulled s; r_zerr := r_zerr s; r_zall := r_zall s; r_dict := r_dict s; r_replies := r_replies s ++ [r]; r_pongs := r_pongs s |}.

(* c.writeError(code, err): Close frame with that code (close.go / write.go:374-376) *)
Definition write_error (s : rst) (code : Z) : rst := add_reply s (RpClose code None).

Definition set_closed (s : rst) : rst :=
  {| r_inq := r_inq s; r_end := r_end s; r_closed := true; r_close_sent := r_close_sent s; r_limit := r_limit s;
     r_fin := r_fin s; r_plen := r_plen s; r_key := r_key s; r_flate := r_flate s; r_lrn := r_lrn s;
     r_zout := r_zout s; r_zpulled := r_zpulled s; r_zerr := r_zerr s; r_zall := r_zall s; r_dict := r_dict s; r_replies := r_replies s; r_pongs := r_pongs s |}.

Definition add_pong_note (s : rst) (p : bytes) : rst :=
  {| r_inq := r_inq s; r_end := r_end s; r_closed := r_closed s; r_close_sent := r_close_sent s; r_limit := r_limit s;
     r_fin := r_fin s; r_plen := r_plen s; r_key := r_key s; r_flate := r_flate s; r_lrn := r_lrn s;
     r_zout := r_zout s; r_zpulled := r_zpulled s; r_zerr := r_zerr s; r_zall := r_zall s; r_dict := r_dict s; r_replies := r_replies s; r_pongs := r_pongs s ++ [p] |}.

Definition set_frame (s : rst) (h : hdr) : rst :=
  {| r_inq := r_inq s; r_end := r_end s; r_closed := r_closed s; r_close_sent := r_close_sent s; r_limit := r_limit s;
     r_fin := h_fin h; r_plen := h_plen h; r_key := h_key h; r_flate := r_flate s; r_lrn := r_lrn s;
     r_zout := r_zout s; r_zpulled := r_zpulled s; r_zerr := r_zerr s; r_zall := r_zall s; r_dict := r_dict s; r_replies := r_replies s; r_pongs := r_pongs s |}.

Section Reader.
Variable cfg : rcfg.
Variable inflate : bytes -> bytes -> bytes * istatus.

Definition is_server : bool := role_eqb (rc_role cfg) Server.
Definition flate_on : bool := match rc_co cfg with Some _ => true | None => false end.
Definition rd_takeover : bool := match rc_co cfg with Some c => reader_takeover (rc_role cfg) c | None => false end.

(* c.readFrameHeader (read.go:220-246) + readFrameHeader (frame.go:50-102) *)
Definition read_hdr (s : rst) : res hdr :=
  if r_closed s then Err REClosed s else
  match dec_hdr (r_inq s) with
  | DecOk h rest => Ok h (set_inq s rest)
  | DecShort => Err (end_err s) (set_inq s [])
  | DecNeg => Err REOther s
  end.

(* c.readFramePayload (read.go:248-274): all n bytes, or what is left together with the transport's error *)
Definition read_payload (s : rst) (n : nat) : bytes * option rerr * rst :=
  if r_closed s then ([], Some REClosed, s) else
  match take_n n (r_inq s) with
  | Some (a, b) => (a, None, set_inq s b)
  | None => (r_inq s, Some (end_err s), set_inq s [])
  end.

(* handleControl (read.go:276-332) *)
Definition handle_control (s : rst) (h : hdr) : res unit :=
  if 125 <? h_plen h then Err REOther (write_error s c_StatusProtocolError) else
  if negb (h_fin h) then Err REOther (write_error s c_StatusProtocolError) else
  let '(raw, e, s1) := read_payload s (N.to_nat (h_plen h)) in
  match e with
  | Some err => Err err s1
  | None =>
    let p := if h_masked h then mask_spec (h_key h) raw else raw in
    if h_opc h =? 9 then Ok tt (add_reply s1 (RpPong p))
    else if h_opc h =? 10 then Ok tt (add_pong_note s1 p)
    else match parse_close p with
         | None => Err REOther (write_error s1 c_StatusProtocolError)
         | Some (code, reason) => Err (RECloseErr code reason) (set_closed (add_reply s1 (RpClose code (Some reason))))
         end
  end.

(* readLoop (read.go:183-218) *)
Fixpoint read_loop (fuel : nat) (s : rst) : res hdr :=
  match fuel with
  | O => Err REBlocked s
  | S f =>
    match read_hdr s with
    | Err e s1 => Err e s1
    | Ok h s1 =>
      if (h_rsv1 h && (negb flate_on || negb (is_data_first (h_opc h)))) || h_rsv2 h || h_rsv3 h
      then Err REOther (write_error s1 c_StatusProtocolError)
      else if is_server && negb (h_masked h) then Err REOther s1
      else if negb is_server && h_masked h then Err REOther s1
      else if (h_opc h =? 8) || (h_opc h =? 9) || (h_opc h =? 10) then
        match handle_control s1 h with
        | Ok _ s2 => read_loop f s2
        | Err e s2 => Err e s2
        end
      else if (h_opc h =? 0) || (h_opc h =? 1) || (h_opc h =? 2) then Ok h s1
      else Err REOther (write_error s1 c_StatusProtocolError)
    end
  end.

(* msgReader.reset (read.go:382-392, 120-138) *)
Definition reset_msg (s : rst) (h : hdr) : rst :=
  {| r_inq := r_inq s; r_end := r_end s; r_closed := r_closed s; r_close_sent := r_close_sent s; r_limit := r_limit s;
     r_fin := h_fin h; r_plen := h_plen h; r_key := h_key h; r_flate := h_rsv1 h; r_lrn := r_limit s;
     r_zout := []; r_zpulled := false; r_zerr := None; r_zall := [];
     r_dict := if h_rsv1 h && negb rd_takeover then [] else r_dict s;
     r_replies := r_replies s; r_pongs := r_pongs s |}.

(* Conn.reader (read.go:334-361): returns the message type *)
Definition reader (fuel : nat) (s : rst) : res N :=
  if r_closed s then Err REClosed s else
  if negb (r_fin s) then Err REUsage s else
  match read_loop fuel s with
  | Err e s1 => Err e s1
  | Ok h s1 =>
    if h_opc h =? 0 then Err REOther (write_error s1 c_StatusProtocolError)
    else Ok (h_opc h) (reset_msg s1 h)
  end.

Inductive rd := RdData (d : bytes) | RdEof.

Definition sub_plen (s : rst) (k : nat) (key' : key) : rst :=
  {| r_inq := r_inq s; r_end := r_end s; r_closed := r_closed s; r_close_sent := r_close_sent s; r_limit := r_limit s;
     r_fin := r_fin s; r_plen := r_plen s - N.of_nat k; r_key := key'; r_flate := r_flate s; r_lrn := r_lrn s;
     r_zout := r_zout s; r_zpulled := r_zpulled s; r_zerr := r_zerr s; r_zall := r_zall s; r_dict := r_dict s; r_replies := r_replies s; r_pongs := r_pongs s |}.

(* msgReader.read (read.go:422-463) on the RAW (still compressed, if flate) payload stream of the message.
   Returns the bytes obtained (possibly together with an error: a partial payload) *)
Fixpoint raw_read (fuel : nat) (n : nat) (s : rst) : bytes * option rerr * bool (* eof *) * rst :=
  match fuel with
  | O => ([], Some REBlocked, false, s)
  | S f =>
    if r_plen s =? 0 then
      if r_fin s then ([], None, true, s)
      else match read_loop fuel s with
           | Err e s1 => ([], Some e, false, s1)
           | Ok h s1 =>
             if negb (h_opc h =? 0) then ([], Some REOther, false, write_error s1 c_StatusProtocolError)
             else raw_read f n (set_frame s1 h)
           end
    else
      let k := if N.of_nat n <? r_plen s then n else N.to_nat (r_plen s) in
      let '(raw, e, s1) := read_payload s k in
      let got := length raw in
      (* unmask what was read (also a partial payload), carry the rotated key   read.go:450-461 *)
      let d := if is_server then mask_spec (r_key s) raw else raw in
      let key' := if is_server then rotk (r_key s) got else r_key s in
      (d, e, false, sub_plen s1 got key')
  end.

(* pull the whole raw payload stream of the current message (what flate.Reader does through bufio, eagerly) *)
Fixpoint pull_all (fuel : nat) (s : rst) (racc : list bytes) : bytes * option rerr * rst :=
  match fuel with
  | O => (concat (frev racc), Some REBlocked, s)
  | S f =>
    let '(d, e, eof, s1) := raw_read (S fuel) bufio_size s in
    match e with
    | Some err => (concat (frev (d :: racc)), Some err, s1)
    | None => if eof then (concat (frev racc), None, s1) else pull_all f s1 (d :: racc)
    end
  end.

Definition set_z (s : rst) (out : bytes) (e : option rerr) : rst :=
  {| r_inq := r_inq s; r_end := r_end s; r_closed := r_closed s; r_close_sent := r_close_sent s; r_limit := r_limit s;
     r_fin := r_fin s; r_plen := r_plen s; r_key := r_key s; r_flate := r_flate s; r_lrn := r_lrn s;
     r_zout := out; r_zpulled := true; r_zerr := e; r_zall := out; r_dict := r_dict s; r_replies := r_replies s; r_pongs := r_pongs s |}.

Definition take_z (s : rst) (k : nat) : rst :=
  {| r_inq := r_inq s; r_end := r_end s; r_closed := r_closed s; r_close_sent := r_close_sent s; r_limit := r_limit s;
     r_fin := r_fin s; r_plen := r_plen s; r_key := r_key s; r_flate := r_flate s;
     r_lrn := if (r_lrn s <? 0)%Z then r_lrn s else (r_lrn s - Z.of_nat k)%Z;
     r_zout := skipn k (r_zout s); r_zpulled := r_zpulled s; r_zerr := r_zerr s; r_zall := r_zall s;
     r_dict := r_dict s; r_replies := r_replies s; r_pongs := r_pongs s |}.

(* at the clean end of a compressed message the dictionary is the last 32 KiB of everything delivered by
   compressed messages so far (msgReader.Read writes each returned slice into the sliding window, read.go:408-411;
   Window.v proves that the incremental window equals this) *)
Definition end_z (s : rst) (all : bytes) : rst :=
  {| r_inq := r_inq s; r_end := r_end s; r_closed := r_closed s; r_close_sent := r_close_sent s; r_limit := r_limit s;
     r_fin := r_fin s; r_plen := r_plen s; r_key := r_key s; r_flate := r_flate s; r_lrn := r_lrn s;
     r_zout := r_zout s; r_zpulled := r_zpulled s; r_zerr := r_zerr s; r_zall := [];
     r_dict := if rd_takeover then lastn (Z.to_nat c_windowSize) (r_dict s ++ all) else r_dict s;
     r_replies := r_replies s; r_pongs := r_pongs s |}.

Definition sub_lrn (s : rst) (k : nat) : rst :=
  {| r_inq := r_inq s; r_end := r_end s; r_closed := r_closed s; r_close_sent := r_close_sent s; r_limit := r_limit s;
     r_fin := r_fin s; r_plen := r_plen s; r_key := r_key s; r_flate := r_flate s;
     r_lrn := if (r_lrn s <? 0)%Z then r_lrn s else (r_lrn s - Z.of_nat k)%Z;
     r_zout := r_zout s; r_zpulled := r_zpulled s; r_zerr := r_zerr s; r_zall := r_zall s; r_dict := r_dict s; r_replies := r_replies s; r_pongs := r_pongs s |}.

(* limitReader.Read: once limit+1 bytes have been read the message is too big (read.go limitReader.Read) *)
Definition limit_hit (s_before : rst) (got : nat) : bool :=
  (0 <=? r_lrn s_before)%Z && (r_lrn s_before - Z.of_nat got <=? 0)%Z.

(* msgReader.Read ∘ limitReader.Read (read.go:400-420, 486-506) with a caller buffer of n > 0 bytes *)
Definition msg_read (fuel : nat) (n : nat) (s : rst) : bytes * option rerr * bool (* clean end of message *) * rst :=
  if r_closed s then ([], Some REClosed, false, s) else
  if (r_lrn s =? 0)%Z then ([], Some RELimit, false, write_error s c_StatusMessageTooBig) else
  let n' := if (0 <? r_lrn s)%Z && (r_lrn s <? Z.of_nat n)%Z then Z.to_nat (r_lrn s) else n in
  if r_flate s then
    let s1 := if r_zpulled s then s else
      let '(z, e, s0) := pull_all fuel s [] in
      match e with
      | None =>   (* the whole message arrived: inflate payload ++ 00 00 ff ff  (read.go:137, 426-428) *)
        match inflate (r_dict s) (z ++ c_deflateMessageTail) with
        | (out, ICorrupt) => set_z s0 out (Some REOther)
        | (out, _) => set_z s0 out None
        end
      | Some err => (* input ended with an error: whatever inflates from the bytes received, then the error *)
        match inflate (r_dict s) z with
        | (out, ICorrupt) => set_z s0 out (Some REOther)
        | (out, IFinal _) => set_z s0 out (Some err)
        | (out, INeedMore) => set_z s0 out (Some err)
        end
      end in
    match r_zout s1 with
    | [] => match r_zerr s1 with
            | None => ([], None, true, end_z s1 (r_zall s1))
            | Some err => ([], Some err, false, s1)
            end
    | _ => let d := firstn n' (r_zout s1) in
           let s2 := take_z s1 (length d) in
           if limit_hit s (length d) then (d, Some RELimit, false, write_error s2 c_StatusMessageTooBig)
           else (d, None, false, s2)
    end
  else
    let '(d, e, eof, s1) := raw_read fuel n' s in
    let s2 := sub_lrn s1 (length d) in
    if limit_hit s (length d) then (d, Some RELimit, false, write_error s2 c_StatusMessageTooBig)
    else (d, e, eof, s2).

(* ---- a read script: what the application does with the read side ---- *)
Inductive rop :=
| OReader                       (* c.Reader(ctx) *)
| ORead (n : nat)               (* one Read with an n-byte buffer *)
| OReadAll                      (* read the current message to EOF / error (io.ReadAll) *)
| OReadAllN (n : nat)           (* the same with an n-byte buffer per Read *)
| OSetLimit (n : Z).            (* c.SetReadLimit(n) *)

(* canonical observation of a script run: per Reader call the type or error; per message the bytes handed
   to the caller and how reading it ended *)
Inductive obs :=
| ObReader (r : N + rerr)
| ObMsg (data : bytes) (ending : option rerr)   (* None = clean end of message; data = everything handed out for it *)
| ObPartial (data : bytes).                      (* reads stopped before the end (script chose to) *)

Definition set_limit (s : rst) (n : Z) : rst :=
  {| r_inq := r_inq s; r_end := r_end s; r_closed := r_closed s; r_close_sent := r_close_sent s;
     r_limit := if (0 <=? n)%Z then (n + 1)%Z else n;
     r_fin := r_fin s; r_plen := r_plen s; r_key := r_key s; r_flate := r_flate s; r_lrn := r_lrn s;
     r_zout := r_zout s; r_zpulled := r_zpulled s; r_zerr := r_zerr s; r_zall := r_zall s; r_dict := r_dict s; r_replies := r_replies s; r_pongs := r_pongs s |}.

(* read until the message ends, with buffer size n each time *)
Fixpoint read_all (fuel : nat) (n : nat) (s : rst) (racc : list bytes) : bytes * option rerr * rst :=
  match fuel with
  | O => (concat (frev racc), Some REBlocked, s)
  | S f =>
    let '(d, e, eof, s1) := msg_read (S fuel) n s in
    match e with
    | Some err => (concat (frev (d :: racc)), Some err, s1)
    | None => if eof then (concat (frev (d :: racc)), None, s1) else read_all f n s1 (d :: racc)
    end
  end.

(* the first Read of a compressed message pulls and inflates it; the remaining hand-out loop needs as many
   steps as there are inflated bytes (which may exceed the input length) *)
Definition read_all_z (fuel : nat) (n : nat) (s : rst) (racc : list bytes) : bytes * option rerr * rst :=
  let '(d, e, eof, s1) := msg_read fuel n s in
  match e with
  | Some err => (concat (frev (d :: racc)), Some err, s1)
  | None => if eof then (concat (frev (d :: racc)), None, s1)
            else read_all (length (r_zout s1) + fuel) n s1 (d :: racc)
  end.

(* run a script; stops at the first failing call (what happens afterwards is unspecified) *)
Fixpoint run_script (fuel : nat) (ops : list rop) (s : rst) (cur : option (list bytes)) (* chunks of the open message, newest first *) : list obs * rst :=
  match ops with
  | [] => (match cur with Some d => [ObPartial (concat (frev d))] | None => [] end, s)
  | OSetLimit n :: r => run_script fuel r (set_limit s n) cur
  | OReader :: r =>
    let pre := match cur with Some d => [ObPartial (concat (frev d))] | None => [] end in
    match reader fuel s with
    | Ok t s1 => let '(o, s2) := run_script fuel r s1 (Some []) in (pre ++ ObReader (inl t) :: o, s2)
    | Err e s1 => (pre ++ [ObReader (inr e)], s1)
    end
  | ORead n :: r =>
    match cur with
    | None => run_script fuel r s cur          (* no open message: the harness never issues this *)
    | Some acc =>
      let '(d, e, eof, s1) := msg_read fuel n s in
      match e with
      | Some err => ([ObMsg (concat (frev (d :: acc))) (Some err)], s1)
      | None => if eof then let '(o, s2) := run_script fuel r s1 None in (ObMsg (concat (frev (d :: acc))) None :: o, s2)
                else run_script fuel r s1 (Some (d :: acc))
      end
    end
  | OReadAll :: r =>
    match cur with
    | None => run_script fuel r s cur
    | Some acc =>
      let '(d, e, s1) := read_all_z fuel 512 s acc in
      match e with
      | Some err => ([ObMsg d (Some err)], s1)
      | None => let '(o, s2) := run_script fuel r s1 None in (ObMsg d None :: o, s2)
      end
    end
  | OReadAllN n :: r =>
    match cur with
    | None => run_script fuel r s cur
    | Some acc =>
      let '(d, e, s1) := read_all_z fuel n s acc in
      match e with
      | Some err => ([ObMsg d (Some err)], s1)
      | None => let '(o, s2) := run_script fuel r s1 None in (ObMsg d None :: o, s2)
      end
    end
  end.

Definition run (limit : Z) (inq : bytes) (e : ending) (ops : list rop) : list obs * rst :=
  run_script (S (S (length inq))) ops (r_init limit inq e) None.
End Reader.
