(* Model/MaskAsm.v — executable definitions only.
   Model of /repo/mask_amd64.s (func maskAsm(b *byte, len int, key uint32) uint32), label by label.

   Machine state:
     memory  = (pre, buf, post); only [buf] may be touched, any access outside it is a fault.
               [length pre] is the address of buf[0] modulo 64 (the arena base is 64-byte aligned).
     AX      = address of buf[0] + length asm_lo : buf is kept split as  asm_lo ++ asm_hi  at AX.
     CX      = asm_cx (a nat, kept separately from the real remaining length [length asm_hi]).
     SI      = asm_si, the uint32 key as its 4 little-endian bytes.
     DI      = asm_di, 8 little-endian bytes.
   Every loop is a Fixpoint on explicit fuel; running out of fuel is reported as AsmFault. *)
From Coq Require Import List NArith Lia.
From WS Require Import Base.Words Model.Mask.
Import ListNotations.
Open Scope N_scope.

Inductive asm_res := AsmDone (mem : bytes * bytes * bytes) (k : key) | AsmFault.

Record asm_st := AsmSt {
  asm_pre : bytes;      (* guard bytes below the buffer; length = (address of buf[0]) mod 64 *)
  asm_lo : bytes;       (* buf[0, AX)   *)
  asm_hi : bytes;       (* buf[AX, len) *)
  asm_post : bytes;     (* guard bytes above the buffer *)
  asm_cx : nat;         (* CX *)
  asm_si : key;         (* SI *)
  asm_di : bytes }.     (* DI, 8 bytes little-endian *)

(* the low bits of AX (all the code ever looks at is AX mod 32) *)
Definition asm_ax (s : asm_st) : nat := (length (asm_pre s) + length (asm_lo s))%nat.

(* TESTQ $imm, v : ZF = ((imm AND v) == 0) *)
Definition asm_testq_z (imm v : nat) : bool := Nat.eqb (Nat.land imm v) 0.

(* XOR{B,W,L,Q} src, off(AX)  and  MOVOU off(AX),X ; PXOR src,X ; MOVOU X,off(AX).
   width = length src; touches buf[AX+off, AX+off+width), faults if that is not inside buf. *)
Definition asm_xor_mem (off : nat) (src : bytes) (s : asm_st) : option asm_st :=
  let hi := asm_hi s in
  let w := length src in
  if Nat.leb (off + w) (length hi)
  then Some (AsmSt (asm_pre s) (asm_lo s)
               (firstn off hi ++ xor_word src (firstn w (skipn off hi)) ++ skipn (off + w) hi)
               (asm_post s) (asm_cx s) (asm_si s) (asm_di s))
  else None.
Definition asm_xorb off s := asm_xor_mem off (firstn 1 (key4 (asm_si s))) s.   (* XORB SI, off(AX) *)
Definition asm_xorw off s := asm_xor_mem off (firstn 2 (key4 (asm_si s))) s.   (* XORW SI, off(AX) *)
Definition asm_xorl off s := asm_xor_mem off (key4 (asm_si s)) s.              (* XORL SI, off(AX) *)
Definition asm_xorq off s := asm_xor_mem off (asm_di s) s.                     (* XORQ DI, off(AX) *)

(* ADDQ $n, AX / INCQ AX.  The split representation cannot express a pointer beyond one-past-the-end,
   so the model aborts there (the theorem shows it never happens). *)
Definition asm_add_ax (n : nat) (s : asm_st) : option asm_st :=
  if Nat.leb n (length (asm_hi s))
  then Some (AsmSt (asm_pre s) (asm_lo s ++ firstn n (asm_hi s)) (skipn n (asm_hi s))
               (asm_post s) (asm_cx s) (asm_si s) (asm_di s))
  else None.
(* SUBQ $n, CX / DECQ CX.  CX is a nat; the model aborts on wrap-around. *)
Definition asm_sub_cx (n : nat) (s : asm_st) : option asm_st :=
  if Nat.leb n (asm_cx s)
  then Some (AsmSt (asm_pre s) (asm_lo s) (asm_hi s) (asm_post s) (asm_cx s - n) (asm_si s) (asm_di s))
  else None.
(* ROLL $24, SI : rotate the uint32 right by 8 = drop the low byte to the top *)
Definition asm_roll24 (s : asm_st) : asm_st :=
  let '(k0,k1,k2,k3) := asm_si s in
  AsmSt (asm_pre s) (asm_lo s) (asm_hi s) (asm_post s) (asm_cx s) (k1,k2,k3,k0) (asm_di s).
(* ROLL $16, SI *)
Definition asm_roll16 (s : asm_st) : asm_st :=
  let '(k0,k1,k2,k3) := asm_si s in
  AsmSt (asm_pre s) (asm_lo s) (asm_hi s) (asm_post s) (asm_cx s) (k2,k3,k0,k1) (asm_di s).
(* MOVL SI, DI ; MOVQ DI, DX ; SHLQ $32, DI ; ORQ DX, DI   (lines 15-18 and 39-42) *)
Definition asm_mk_di (s : asm_st) : asm_st :=
  AsmSt (asm_pre s) (asm_lo s) (asm_hi s) (asm_post s) (asm_cx s) (asm_si s) (key8 (asm_si s)).

Notation "'do' x <- a ; b" := (match a with Some x => b | None => AsmFault end)
  (at level 200, x name, a at level 100, b at level 200, only parsing).

(* done: lines 125-127   MOVL SI, ret ; RET *)
Definition asm_done (s : asm_st) : asm_res :=
  AsmDone (asm_pre s, asm_lo s ++ asm_hi s, asm_post s) (asm_si s).

(* less_than_2: lines 119-123   TESTQ $1,CX ; JZ done ; XORB SI,(AX) ; ROLL $24,SI *)
Definition asm_less_than_2 (s : asm_st) : asm_res :=
  if asm_testq_z 1 (asm_cx s) then asm_done s else
  do s <- asm_xorb 0 s;
  asm_done (asm_roll24 s).

(* less_than_4: lines 112-117   TESTQ $2,CX ; JZ less_than_2 ; XORW SI,(AX) ; ROLL $16,SI ; ADDQ $2,AX *)
Definition asm_less_than_4 (s : asm_st) : asm_res :=
  if asm_testq_z 2 (asm_cx s) then asm_less_than_2 s else
  do s <- asm_xorw 0 s;
  let s := asm_roll16 s in
  do s <- asm_add_ax 2 s;
  asm_less_than_2 s.

(* less_than_8: lines 106-110   TESTQ $4,CX ; JZ less_than_4 ; XORL SI,(AX) ; ADDQ $4,AX *)
Definition asm_less_than_8 (s : asm_st) : asm_res :=
  if asm_testq_z 4 (asm_cx s) then asm_less_than_4 s else
  do s <- asm_xorl 0 s;
  do s <- asm_add_ax 4 s;
  asm_less_than_4 s.

(* less_than_16: lines 100-104   TESTQ $8,CX ; JZ less_than_8 ; XORQ DI,(AX) ; ADDQ $8,AX *)
Definition asm_less_than_16 (s : asm_st) : asm_res :=
  if asm_testq_z 8 (asm_cx s) then asm_less_than_8 s else
  do s <- asm_xorq 0 s;
  do s <- asm_add_ax 8 s;
  asm_less_than_8 s.

(* less_than_32: lines 93-98   TESTQ $16,CX ; JZ less_than_16 ; XORQ DI,(AX) ; XORQ DI,8(AX) ; ADDQ $16,AX *)
Definition asm_less_than_32 (s : asm_st) : asm_res :=
  if asm_testq_z 16 (asm_cx s) then asm_less_than_16 s else
  do s <- asm_xorq 0 s;
  do s <- asm_xorq 8 s;
  do s <- asm_add_ax 16 s;
  asm_less_than_16 s.

(* less_than_64: lines 84-91   TESTQ $32,CX ; JZ less_than_32 ; XORQ DI,(AX) ... XORQ DI,24(AX) ; ADDQ $32,AX *)
Definition asm_less_than_64 (s : asm_st) : asm_res :=
  if asm_testq_z 32 (asm_cx s) then asm_less_than_32 s else
  do s <- asm_xorq 0 s;
  do s <- asm_xorq 8 s;
  do s <- asm_xorq 16 s;
  do s <- asm_xorq 24 s;
  do s <- asm_add_ax 32 s;
  asm_less_than_32 s.

(* sse_loop: lines 66-82 (do-while).  x0 = X0 = DI:DI.  The four 16-byte lanes are disjoint, so
   load/PXOR/store per lane is the same as the asm's four loads, four PXORs, four stores; each lane
   faults unless [off, off+16) is inside buf.  ADDQ $0x40,AX ; SUBQ $0x40,CX ; CMPQ CX,$0x40 ; JAE sse_loop;
   falls through into less_than_64. *)
Fixpoint asm_sse_loop (fuel : nat) (x0 : bytes) (s : asm_st) : asm_res :=
  match fuel with
  | O => AsmFault
  | S fu =>
    do s <- asm_xor_mem 0 x0 s;
    do s <- asm_xor_mem 16 x0 s;
    do s <- asm_xor_mem 32 x0 s;
    do s <- asm_xor_mem 48 x0 s;
    do s <- asm_add_ax 64 s;
    do s <- asm_sub_cx 64 s;
    if Nat.leb 64 (asm_cx s) then asm_sse_loop fu x0 s else asm_less_than_64 s
  end.

(* sse: lines 60-64   CMPQ CX,$0x40 ; JL less_than_64 ; MOVQ DI,X0 ; PUNPCKLQDQ X0,X0 *)
Definition asm_sse (F : nat) (s : asm_st) : asm_res :=
  if Nat.ltb (asm_cx s) 64 then asm_less_than_64 s
  else asm_sse_loop F (asm_di s ++ asm_di s) s.

(* unaligned_loop: lines 51-58 (do-while)
   XORQ DI,(AX) ; ADDQ $8,AX ; SUBQ $8,CX ; TESTQ $31,AX ; JNZ unaligned_loop ; JMP sse *)
Fixpoint asm_unaligned_loop (F fuel : nat) (s : asm_st) : asm_res :=
  match fuel with
  | O => AsmFault
  | S fu =>
    do s <- asm_xorq 0 s;
    do s <- asm_add_ax 8 s;
    do s <- asm_sub_cx 8 s;
    if asm_testq_z 31 (asm_ax s) then asm_sse F s else asm_unaligned_loop F fu s
  end.

(* unaligned: lines 47-49   TESTQ $7,AX ; JNZ unaligned_loop_1byte ; (fall into unaligned_loop).
   [loop1] is the code at label unaligned_loop_1byte. *)
Definition asm_unaligned (F : nat) (loop1 : asm_st -> asm_res) (s : asm_st) : asm_res :=
  if asm_testq_z 7 (asm_ax s) then asm_unaligned_loop F F s else loop1 s.

(* unaligned_loop_1byte: lines 29-45 (do-while)
   XORB SI,(AX) ; INCQ AX ; DECQ CX ; ROLL $24,SI ; TESTQ $7,AX ; JNZ unaligned_loop_1byte ;
   recompute DI ; TESTQ $31,AX ; JZ sse ; (fall into unaligned) *)
Fixpoint asm_unaligned_loop_1byte (F fuel : nat) (s : asm_st) : asm_res :=
  match fuel with
  | O => AsmFault
  | S fu =>
    do s <- asm_xorb 0 s;
    do s <- asm_add_ax 1 s;
    do s <- asm_sub_cx 1 s;
    let s := asm_roll24 s in
    if asm_testq_z 7 (asm_ax s)
    then let s := asm_mk_di s in
         if asm_testq_z 31 (asm_ax s) then asm_sse F s
         else asm_unaligned F (asm_unaligned_loop_1byte F fu) s
    else asm_unaligned_loop_1byte F fu s
  end.

(* entry: lines 9-27.  Loads AX, CX, SI, computes DI, dispatches on CX; when CX > 128 and AX is already
   32-byte aligned the JNZ at line 27 is not taken and control FALLS THROUGH into unaligned_loop_1byte. *)
Definition maskAsm_amd64 (mem : bytes * bytes * bytes) (k : key) : asm_res :=
  let '(pre, buf, post) := mem in
  let F := length buf in                                        (* fuel handed to every loop *)
  let s := asm_mk_di (AsmSt pre [] buf post (length buf) k []) in
  if Nat.leb (asm_cx s) 15 then asm_less_than_16 s              (* CMPQ CX,$15 ; JLE less_than_16 *)
  else if Nat.leb (asm_cx s) 63 then asm_less_than_64 s         (* CMPQ CX,$63 ; JLE less_than_64 *)
  else if Nat.leb (asm_cx s) 128 then asm_sse F s               (* CMPQ CX,$128 ; JLE sse *)
  else if asm_testq_z 31 (asm_ax s)                             (* TESTQ $31,AX ; JNZ unaligned *)
       then asm_unaligned_loop_1byte F F s                      (* fall-through *)
       else asm_unaligned F (asm_unaligned_loop_1byte F F) s.
