(* Model/ScriptZ.v — executable definitions only.  Script.v with permessage-deflate (RFC 7692): what a conformant
   peer may send when compression has been negotiated.  Every message is either sent as it is or COMPRESSED; a
   compressed message is fragmented exactly like any other, its FIRST data frame carries RSV1, continuation and
   control frames never do.  What the application must see is stated with the inflate ORACLE of the Reader model
   (dictionary -> deflate input -> output, how it ended). *)
From Coq Require Import List NArith ZArith Bool.
From WS Require Import Base.Words Gen.Consts Model.Mask Model.Frame Model.Proto Model.RefDecoder Model.Reader Model.Script.
Import ListNotations.
Open Scope N_scope.

(* zm_z = true: the fragments of zm_m carry the DEFLATE body of the message (without the 00 00 ff ff tail) *)
Record zmsg := { zm_z : bool; zm_m : smsg }.

Definition mk_hdr_z (rsv1 masked fin : bool) (opc : N) (k : key) (n : nat) : hdr :=
  {| h_fin := fin; h_rsv1 := rsv1; h_rsv2 := false; h_rsv3 := false; h_opc := opc;
     h_masked := masked; h_key := if masked then k else zero_key; h_plen := N.of_nat n |}.

(* enc_frag of Script.v with RSV1 on the data frame (the control frames before it are plain) *)
Definition enc_frag_z (rsv1 masked : bool) (opc : N) (f : frag) (last : bool) : bytes :=
  concat (map (enc_ctl masked) (fr_ctl f)) ++ enc_frame (mk_hdr_z rsv1 masked last opc (fr_key f) (length (fr_body f)), fr_body f).

Definition enc_zmsg (masked : bool) (zm : zmsg) : bytes :=
  let m := zm_m zm in
  enc_frag_z (zm_z zm) masked (sm_typ m) (sm_first m) (is_nil (sm_rest m)) ++ enc_rest masked (sm_rest m).

Definition enc_zscript (masked : bool) (ms : list zmsg) : bytes := concat (map (enc_zmsg masked) ms).

Section ZSem.
Variable inflate : bytes -> bytes -> bytes * istatus.
Variable takeover : bool.                       (* the READER keeps its context: rd_takeover of Reader.v *)

(* the dictionary after a compressed message that inflated to [out]  (end_z of Reader.v) *)
Definition next_dict (dict out : bytes) : bytes :=
  if takeover then lastn (Z.to_nat c_windowSize) (dict ++ out) else dict.

(* what the application must see; [dict] = the dictionary before the first message.  A message whose payload the
   inflater calls corrupt is delivered as far as the inflater got, fails with REOther, and reading stops *)
Fixpoint expected_zobs (dict : bytes) (ms : list zmsg) : list obs :=
  match ms with
  | [] => []
  | zm :: r =>
    let m := zm_m zm in
    if zm_z zm then
      match inflate dict (sm_payload m ++ c_deflateMessageTail) with
      | (out, ICorrupt) => [ObReader (inl (sm_typ m)); ObMsg out (Some REOther)]
      | (out, _) => ObReader (inl (sm_typ m)) :: ObMsg out None :: expected_zobs (next_dict dict out) r
      end
    else ObReader (inl (sm_typ m)) :: ObMsg (sm_payload m) None :: expected_zobs dict r
  end.

(* no compressed message of the stream is corrupt (for the inflater, with the dictionary it is given) *)
Fixpoint all_inflate_ok (dict : bytes) (ms : list zmsg) : bool :=
  match ms with
  | [] => true
  | zm :: r =>
    if zm_z zm then
      match inflate dict (sm_payload (zm_m zm) ++ c_deflateMessageTail) with
      | (_, ICorrupt) => false
      | (out, _) => all_inflate_ok (next_dict dict out) r
      end
    else all_inflate_ok dict r
  end.

End ZSem.

(* a stream described by what the SENDER compressed: plains = the application messages, ms = what is on the wire *)
Section ZCarry.
Variable deflate_body : bytes -> bytes -> bytes.     (* dictionary -> plain text -> DEFLATE body without the tail *)
Variable takeover : bool.

Fixpoint carries (dict : bytes) (ms : list zmsg) (plains : list bytes) : Prop :=
  match ms, plains with
  | [], [] => True
  | zm :: r, p :: ps =>
    sm_payload (zm_m zm) = (if zm_z zm then deflate_body dict p else p) /\
    carries (if zm_z zm then next_dict takeover dict p else dict) r ps
  | _, _ => False
  end.

Definition plain_obs (ms : list zmsg) (plains : list bytes) : list obs :=
  flat_map (fun zp => [ObReader (inl (sm_typ (zm_m (fst zp)))); ObMsg (snd zp) None]) (combine ms plains).
End ZCarry.
