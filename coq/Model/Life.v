(* Model/Life.v — executable definitions only.  Contexts, the timeout goroutine, blocked calls and the
   goroutines a connection starts (conn.go timeoutLoop / close / mu, read.go readFrameHeader / readFramePayload /
   CloseRead, write.go writeFrame, close.go Close / CloseNow / waitGoroutines), as a small-step interleaving semantics.
   Time is abstract: a context becoming done (cancel or deadline) and a wait timer firing are environment events
   that may happen at any moment.  T1 (net.Conn contract): closing the transport fails every pending and later I/O. *)
From Coq Require Import List Arith Bool.
Import ListNotations.

Definition tid := nat.
Definition ctxid := nat.                 (* 0 = context.Background(), never done *)
Inductive side := SR | SW.               (* read side (readMu, readTimeout) / write side (writeFrameMu, writeTimeout) *)

Inductive lcall :=
| LRead (c : ctxid)                      (* a read call (Reader / Read of a message / one frame): one section on the read side *)
| LWrite (c : ctxid)                     (* Write / Ping's frame: one section on the write side *)
| LClose (cw cr : ctxid)                 (* Close: close frame under the 5 s context cw, handshake wait under the 5 s context cr, close(), waitGoroutines *)
| LCloseNow                              (* close(), waitGoroutines *)
| LCloseRead (c : ctxid) (g : tid).      (* CloseRead(ctx): starts goroutine g (once) *)

(* what follows a section *)
Inductive cont := KRet | KThenHandshake (cr : ctxid) | KThenClose | KCRData (* CloseRead goroutine got a data message *) | KCRExit.

Inductive lph :=
| LIdle
| LWantMu (sd : side) (c : ctxid) (k : cont)    (* mu.lock(ctx) *)
| LArm (sd : side) (c : ctxid) (k : cont)       (* holds the mu: select { <-closed | timeout <- ctx } *)
| LIO (sd : side) (c : ctxid) (k : cont)        (* armed; blocked in transport I/O *)
| LRearm (sd : side) (c : ctxid) (k : cont)     (* I/O succeeded: select { <-closed | timeout <- Background } *)
| LRelease (sd : side) (ok : bool) (k : cont)   (* unlock the mu; continue with k *)
| LDoClose (k : cont)                           (* Conn.close() *)
| LWaitTL (ok : bool) | LWaitCR (ok : bool)     (* waitGoroutines: <-timeoutLoopDone, then <-closeReadDone if CloseRead was called; ok = false: casClosing had failed (net.ErrClosed) *)
| LExited.                                      (* a library goroutine that has returned *)

Inductive lres := ROk | RErr | RWaitTimeout.    (* per finished call: nil / an error / waitGoroutines gave up *)

Record lthr := { lp : lph; lcalls : list lcall; lresults : list (lcall * lres) (* finished calls, newest first *) }.

Record lst := {
  l_closed : bool;                    (* c.closed is closed; the transport is closed with it (T1: all I/O fails from now on) *)
  l_closing : bool;                   (* casClosing *)
  l_arm : side -> ctxid;              (* the context the timeout goroutine currently watches for each side *)
  l_done : ctxid -> bool;             (* contexts that are done *)
  l_mu : side -> option tid;          (* readMu / writeFrameMu *)
  l_tl_exited : bool;                 (* timeoutLoop has returned (timeoutLoopDone closed) *)
  l_cr : option tid;                  (* the CloseRead goroutine, once started *)
  l_lockreq : bool;                   (* a lock wait was given up because its context ended: the timeout goroutine is asked to close (conn.go lockTimeout) *)
  l_thr : tid -> lthr }.

Definition side_eqb (a b : side) : bool := match a, b with SR, SR => true | SW, SW => true | _, _ => false end.
Definition updf {A} (f : side -> A) (s : side) (x : A) : side -> A := fun s' => if side_eqb s' s then x else f s'.
Definition updt (f : tid -> lthr) (i : tid) (x : lthr) : tid -> lthr := fun j => if Nat.eqb j i then x else f j.
Definition updc (f : ctxid -> bool) (c : ctxid) : ctxid -> bool := fun c' => if Nat.eqb c' c then true else f c'.
Arguments updf : simpl never. Arguments updt : simpl never. Arguments updc : simpl never.

Inductive lev :=
| LStep (t : tid) (alt : bool)        (* thread t takes its next micro-step; alt picks the <-closed branch of a select when both are ready *)
| LIOReady (t : tid)                  (* the transport completes the I/O thread t is blocked in (data arrived / bytes accepted) *)
| LIOFail (t : tid)                   (* the transport fails the I/O thread t is blocked in although the connection is not closed (peer gone) *)
| LCancel (c : ctxid)                 (* context c becomes done (cancelled or its deadline passed); c <> 0 *)
| LTimeout                            (* the timeout goroutine takes a step *)
| LWaitTimer (t : tid).               (* the 15 s timer of t's waitGoroutines fires *)

Definition set_lp (th : lthr) (p : lph) : lthr := {| lp := p; lcalls := lcalls th; lresults := lresults th |}.
Definition lret (th : lthr) (r : lres) : lthr :=
  {| lp := LIdle; lcalls := tl (lcalls th);
     lresults := match lcalls th with c :: _ => (c, r) :: lresults th | [] => lresults th end |}.

Definition with_t (s : lst) (t : tid) (th : lthr) : lst :=
  {| l_closed := l_closed s; l_closing := l_closing s; l_arm := l_arm s; l_done := l_done s; l_mu := l_mu s;
     l_tl_exited := l_tl_exited s; l_cr := l_cr s; l_lockreq := l_lockreq s; l_thr := updt (l_thr s) t th |}.

(* after a section: what the thread does next *)
Definition after_section (th : lthr) (ok : bool) (k : cont) : lthr :=
  match k with
  | KRet => lret th (if ok then ROk else RErr)
  | KThenHandshake cr => if ok then set_lp th (LWantMu SR cr KThenClose)   (* closeHandshake: wait for the peer's Close frame *)
                         else set_lp th (LDoClose KRet)                    (* the Close frame could not be written: close() right away *)
  | KThenClose => set_lp th (LDoClose KRet)
  | KCRData => set_lp th (LDoClose KCRExit)
  | KCRExit => set_lp th (LDoClose KCRExit)
  end.

Definition lstep (s : lst) (e : lev) : option lst :=
  match e with
  | LCancel c => if Nat.eqb c 0 then None else
      Some {| l_closed := l_closed s; l_closing := l_closing s; l_arm := l_arm s; l_done := updc (l_done s) c; l_mu := l_mu s;
              l_tl_exited := l_tl_exited s; l_cr := l_cr s; l_lockreq := l_lockreq s; l_thr := l_thr s |}
  | LTimeout =>
      (* conn.go timeoutLoop: exits when closed; closes the connection when a watched context is done *)
      if l_tl_exited s then None
      else if l_closed s then
        Some {| l_closed := true; l_closing := l_closing s; l_arm := l_arm s; l_done := l_done s; l_mu := l_mu s;
                l_tl_exited := true; l_cr := l_cr s; l_lockreq := l_lockreq s; l_thr := l_thr s |}
      else if l_lockreq s || l_done s (l_arm s SR) || l_done s (l_arm s SW) then
        Some {| l_closed := true; l_closing := l_closing s; l_arm := l_arm s; l_done := l_done s; l_mu := l_mu s;
                l_tl_exited := true; l_cr := l_cr s; l_lockreq := l_lockreq s; l_thr := l_thr s |}
      else None
  | LIOReady t =>
      let th := l_thr s t in
      match lp th with
      | LIO sd c k => if l_closed s then None (* the I/O fails instead: see LStep *)
                      else Some (with_t s t (set_lp th (LRearm sd c k)))
      | _ => None
      end
  | LIOFail t =>
      let th := l_thr s t in
      match lp th with
      | LIO sd c k => Some (with_t s t (set_lp th (LRelease sd false k)))     (* the side stays armed with c *)
      | _ => None
      end
  | LWaitTimer t =>
      let th := l_thr s t in
      match lp th with
      | LWaitTL _ | LWaitCR _ => Some (with_t s t (lret th RWaitTimeout))
      | _ => None
      end
  | LStep t alt =>
    let th := l_thr s t in
    match lp th with
    | LIdle =>
      match lcalls th with
      | [] => None
      | LRead c :: _ => Some (with_t s t (set_lp th (LWantMu SR c KRet)))
      | LWrite c :: _ => Some (with_t s t (set_lp th (LWantMu SW c KRet)))
      | LClose cw cr :: _ =>
          if l_closing s then Some (with_t s t (set_lp th (LWaitTL false)))    (* casClosing failed: waitGoroutines, then net.ErrClosed *)
          else Some {| l_closed := l_closed s; l_closing := true; l_arm := l_arm s; l_done := l_done s; l_mu := l_mu s;
                       l_tl_exited := l_tl_exited s; l_cr := l_cr s; l_lockreq := l_lockreq s; l_thr := updt (l_thr s) t (set_lp th (LWantMu SW cw (KThenHandshake cr))) |}
      | LCloseNow :: _ =>
          if l_closing s then Some (with_t s t (set_lp th (LWaitTL false)))
          else Some {| l_closed := l_closed s; l_closing := true; l_arm := l_arm s; l_done := l_done s; l_mu := l_mu s;
                       l_tl_exited := l_tl_exited s; l_cr := l_cr s; l_lockreq := l_lockreq s; l_thr := updt (l_thr s) t (set_lp th (LDoClose KRet)) |}
      | LCloseRead c g :: _ =>
          match l_cr s with
          | Some _ => Some (with_t s t (lret th ROk))                           (* idempotent *)
          | None =>
            (* start goroutine g: it performs a read section under c and closes the connection when the section ends *)
            let s1 := {| l_closed := l_closed s; l_closing := l_closing s; l_arm := l_arm s; l_done := l_done s; l_mu := l_mu s;
                         l_tl_exited := l_tl_exited s; l_cr := Some g; l_lockreq := l_lockreq s;
                         l_thr := updt (l_thr s) g {| lp := LWantMu SR c KCRData; lcalls := []; lresults := [] |} |} in
            Some (with_t s1 t (lret th ROk))
          end
      end
    | LWantMu sd c k =>
      (* conn.go mu.lock: { <-closed | <-ctx.Done() | acquire, then re-check closed } *)
      if alt then
        (if l_closed s then Some (with_t s t (after_section th false k))
         else if l_done s c then
           (* the wait is given up because the call's context ended: the call fails and the timeout goroutine is asked to close the
              connection (conn.go mu.lock: lockTimeout) *)
           Some {| l_closed := l_closed s; l_closing := l_closing s; l_arm := l_arm s; l_done := l_done s; l_mu := l_mu s;
                   l_tl_exited := l_tl_exited s; l_cr := l_cr s; l_lockreq := true; l_thr := updt (l_thr s) t (after_section th false k) |}
         else None)
      else match l_mu s sd with
           | Some _ => None
           | None => if l_closed s then Some (with_t s t (after_section th false k))
                     else Some {| l_closed := l_closed s; l_closing := l_closing s; l_arm := l_arm s; l_done := l_done s; l_mu := updf (l_mu s) sd (Some t);
                                  l_tl_exited := l_tl_exited s; l_cr := l_cr s; l_lockreq := l_lockreq s; l_thr := updt (l_thr s) t (set_lp th (LArm sd c k)) |}
           end
    | LArm sd c k =>
      (* select { <-closed: fail | timeout <- ctx } — the send needs the timeout goroutine, which only exits once closed *)
      if l_closed s then Some (with_t s t (set_lp th (LRelease sd false k)))
      else Some {| l_closed := l_closed s; l_closing := l_closing s; l_arm := updf (l_arm s) sd c; l_done := l_done s; l_mu := l_mu s;
                   l_tl_exited := l_tl_exited s; l_cr := l_cr s; l_lockreq := l_lockreq s; l_thr := updt (l_thr s) t (set_lp th (LIO sd c k)) |}
    | LIO sd c k =>
      (* blocked in I/O: it fails once the connection (hence the transport) is closed — and only then (T1) *)
      if l_closed s then Some (with_t s t (set_lp th (LRelease sd false k))) else None
    | LRearm sd c k =>
      (* select { <-closed: fail (the side stays armed with c) | timeout <- Background } *)
      if l_closed s then
        (if alt || l_tl_exited s then Some (with_t s t (set_lp th (LRelease sd false k)))
         else Some {| l_closed := l_closed s; l_closing := l_closing s; l_arm := updf (l_arm s) sd 0; l_done := l_done s; l_mu := l_mu s;
                      l_tl_exited := l_tl_exited s; l_cr := l_cr s; l_lockreq := l_lockreq s; l_thr := updt (l_thr s) t (set_lp th (LRelease sd true k)) |})
      else Some {| l_closed := l_closed s; l_closing := l_closing s; l_arm := updf (l_arm s) sd 0; l_done := l_done s; l_mu := l_mu s;
                   l_tl_exited := l_tl_exited s; l_cr := l_cr s; l_lockreq := l_lockreq s; l_thr := updt (l_thr s) t (set_lp th (LRelease sd true k)) |}
    | LRelease sd ok k =>
      Some {| l_closed := l_closed s; l_closing := l_closing s; l_arm := l_arm s; l_done := l_done s; l_mu := updf (l_mu s) sd None;
              l_tl_exited := l_tl_exited s; l_cr := l_cr s; l_lockreq := l_lockreq s;
              l_thr := updt (l_thr s) t (match k, ok with
                                        | KCRData, false => set_lp th (LDoClose KCRExit)      (* Reader failed: deferred close, exit *)
                                        | KCRData, true =>                                    (* a data message: the goroutine performs the close handshake itself (abstracted) and closes *)
                                            set_lp th (LDoClose KCRExit)
                                        | _, _ => after_section th ok k
                                        end) |}
    | LDoClose k =>
      let s1 := {| l_closed := true; l_closing := l_closing s; l_arm := l_arm s; l_done := l_done s; l_mu := l_mu s;
                   l_tl_exited := l_tl_exited s; l_cr := l_cr s; l_lockreq := l_lockreq s; l_thr := l_thr s |} in
      Some (with_t s1 t (match k with KCRExit | KCRData => set_lp th LExited | _ => set_lp th (LWaitTL true) end))
    | LWaitTL ok => if l_tl_exited s then Some (with_t s t (set_lp th (LWaitCR ok))) else None
    | LWaitCR ok =>
      match l_cr s with
      | None => Some (with_t s t (lret th (if ok then ROk else RErr)))
      | Some g => match lp (l_thr s g) with
                  | LExited => Some (with_t s t (lret th (if ok then ROk else RErr)))
                  | _ => None
                  end
      end
    | LExited => None
    end
  end.

Fixpoint lrun (s : lst) (sched : list lev) : lst :=
  match sched with
  | [] => s
  | e :: r => match lstep s e with Some s' => lrun s' r | None => lrun s r end
  end.

Definition linit (progs : tid -> list lcall) : lst :=
  {| l_closed := false; l_closing := false; l_arm := fun _ => 0; l_done := fun _ => false; l_mu := fun _ => None;
     l_tl_exited := false; l_cr := None; l_lockreq := false;
     l_thr := fun t => {| lp := LIdle; lcalls := progs t; lresults := [] |} |}.

(* a thread is inside a section of [sd] under context c: between arming and re-arming *)
Definition in_section (s : lst) (t : tid) (sd : side) (c : ctxid) : Prop :=
  match lp (l_thr s t) with
  | LIO sd' c' _ | LRearm sd' c' _ => sd' = sd /\ c' = c
  | _ => False
  end.
(* … or it left the section through a failure (the connection is then closed, or the timeout goroutine will close it when c is done) *)
Definition failed_in_section (s : lst) (sd : side) (c : ctxid) : Prop := l_arm s sd = c /\ c <> 0 /\ forall t, ~ in_section s t sd c.
