(* Model/Ping.v — executable definitions only.  The matching of outstanding Pings with received Pongs
   (conn.go Ping / ping: activePings[payload] registered BEFORE the Ping frame is written, removed when the call returns;
   read.go handleControl opPong: looks the received payload up in activePings and signals that call).
   Payloads are the decimal spellings of an int32 counter in the library; here they are arbitrary byte strings. *)
From Coq Require Import List NArith Bool.
From WS Require Import Base.Words.
Import ListNotations.

Inductive pgres := PgOk | PgErr.

Inductive pgev :=
| PgReg (i : nat) (p : bytes)      (* call i registers payload p (and writes its Ping frame) *)
| PgPong (p : bytes)               (* the reader handles a Pong frame with payload p *)
| PgEnd (i : nat)                  (* call i's context ends *)
| PgClosed.                        (* the connection closes *)

Fixpoint bytes_eqb (a b : bytes) : bool :=
  match a, b with
  | [], [] => true
  | x :: a', y :: b' => N.eqb x y && bytes_eqb a' b'
  | _, _ => false
  end.

Record pgst := { pg_active : list (nat * bytes);         (* calls waiting: registered, not yet returned *)
                 pg_done : list (nat * pgres) }.          (* calls that returned, newest first *)

Definition pg_init : pgst := {| pg_active := []; pg_done := [] |}.

Definition pg_step (s : pgst) (e : pgev) : pgst :=
  match e with
  | PgReg i p => {| pg_active := pg_active s ++ [(i, p)]; pg_done := pg_done s |}
  | PgPong p =>
      let hit := filter (fun ip => bytes_eqb (snd ip) p) (pg_active s) in
      let rest := filter (fun ip => negb (bytes_eqb (snd ip) p)) (pg_active s) in
      {| pg_active := rest; pg_done := map (fun ip => (fst ip, PgOk)) hit ++ pg_done s |}
  | PgEnd i =>
      let hit := filter (fun ip => Nat.eqb (fst ip) i) (pg_active s) in
      let rest := filter (fun ip => negb (Nat.eqb (fst ip) i)) (pg_active s) in
      {| pg_active := rest; pg_done := map (fun ip => (fst ip, PgErr)) hit ++ pg_done s |}
  | PgClosed => {| pg_active := []; pg_done := map (fun ip => (fst ip, PgErr)) (pg_active s) ++ pg_done s |}
  end.

Definition pg_run (evs : list pgev) : pgst := fold_left pg_step evs pg_init.
