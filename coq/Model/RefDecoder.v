(* Model/RefDecoder.v — executable definitions only.
   The SPECIFICATION side: an RFC 6455 / RFC 7692 frame parser, the conformance predicate of a
   sender's frame stream, and message reassembly.  Written from the RFCs, not from the library
   (only the header layout is shared, through dec_hdr). *)
From Coq Require Import List NArith ZArith Bool.
From WS Require Import Base.Words Gen.Consts Model.Mask Model.Frame Model.Proto Model.CloseCodec.
Import ListNotations.
Open Scope N_scope.

Inductive pend := PClean | PShort | PNeg.

(* a parsed frame also remembers how many bytes its header occupied (for the minimal-encoding clause) *)
Record pframe := { pf_hdr : hdr; pf_payload : bytes; pf_hlen : nat }.

(* bytes the header of the frame at the front of [inp] occupied: 2 + the extension actually used + key *)
Definition hdr_len (inp : bytes) (h : hdr) : nat :=
  match inp with
  | _ :: b1 :: _ => let l7 := b1 mod 128 in
                    let ext := if l7 =? 126 then 2%nat else if l7 =? 127 then 8%nat else 0%nat in
                    (2 + ext + (if h_masked h then 4 else 0))%nat
  | _ => 0%nat
  end.

Fixpoint parse_frames (fuel : nat) (inp : bytes) : list pframe * pend :=
  match fuel with
  | O => ([], PShort)
  | S f =>
    match inp with
    | [] => ([], PClean)
    | _ =>
      match dec_hdr inp with
      | DecShort => ([], PShort)
      | DecNeg => ([], PNeg)
      | DecOk h rest =>
        match take_N rest (h_plen h) with
        | None => ([], PShort)
        | Some (raw, rest') =>
          let p := if h_masked h then mask_spec (h_key h) raw else raw in
          let '(fs, e) := parse_frames f rest' in
          ({| pf_hdr := h; pf_payload := p; pf_hlen := hdr_len inp h |} :: fs, e)
        end
      end
    end
  end.

Definition parse (inp : bytes) := parse_frames (S (length inp)) inp.

(* ---- conformance of the frames ONE endpoint sends (RFC 6455 §5, RFC 7692 §6/§7) ---- *)
Definition close_payload_ok (p : bytes) : bool :=
  match p with [] => true | _ => match parse_close p with Some _ => Nat.leb (length p) 125 | None => false end end.

Definition frame_ok (sender : role) (co : option copts) (opened : bool) (f : pframe) : option bool (* Some opened' | None = violation *) :=
  let h := pf_hdr f in
  if negb (Bool.eqb (h_masked h) (role_eqb sender Client)) then None else            (* §5.1 masking *)
  if h_rsv2 h || h_rsv3 h then None else                                             (* §5.2 reserved bits *)
  if negb (Nat.eqb (pf_hlen f) (2 + ext_len (h_plen h) + (if h_masked h then 4 else 0))) then None else   (* §5.2 minimal length encoding *)
  if negb (h_plen h =? N.of_nat (length (pf_payload f))) then None else
  if is_control (h_opc h) then
    if negb ((h_opc h =? 8) || (h_opc h =? 9) || (h_opc h =? 10)) then None else     (* reserved control opcodes *)
    if negb (h_fin h) || (125 <? h_plen h) || h_rsv1 h then None else                (* §5.5 *)
    if (h_opc h =? 8) && negb (close_payload_ok (pf_payload f)) then None else       (* §5.5.1 / §7.4 *)
    Some opened
  else if is_data_first (h_opc h) then
    if opened then None else                                                         (* §5.4 new message inside a message *)
    if h_rsv1 h && (match co with None => true | Some _ => false end) then None else (* RFC 7692 §6: rsv1 only if negotiated *)
    Some (negb (h_fin h))
  else if h_opc h =? 0 then
    if negb opened then None else                                                    (* §5.4 continuation without a message *)
    if h_rsv1 h then None else                                                       (* RFC 7692 §6.1: rsv1 only on the first frame *)
    Some (negb (h_fin h))
  else None.                                                                         (* reserved data opcodes 3-7 *)

Fixpoint wf_frames (sender : role) (co : option copts) (opened : bool) (fs : list pframe) : bool :=
  match fs with
  | [] => true
  | f :: r => match frame_ok sender co opened f with Some o => wf_frames sender co o r | None => false end
  end.
Definition wf_stream sender co fs := wf_frames sender co false fs.

(* ---- reassembly ---- *)
Inductive ev :=
| EvMsg (typ : N) (compressed : bool) (payload : bytes)      (* payload = concatenated fragments, still compressed if [compressed] *)
| EvCtl (opc : N) (p : bytes).

(* cur = the message being assembled: (typ, compressed, payload so far) *)
Fixpoint reassemble (cur : option (N * bool * bytes)) (fs : list pframe) : list ev * option (N * bool * bytes) :=
  match fs with
  | [] => ([], cur)
  | f :: r =>
    let h := pf_hdr f in
    if is_control (h_opc h) then
      let '(es, c) := reassemble cur r in (EvCtl (h_opc h) (pf_payload f) :: es, c)
    else
      let cur1 := match cur with
                  | None => (h_opc h, h_rsv1 h, pf_payload f)
                  | Some (t, z, acc) => (t, z, acc ++ pf_payload f) end in
      if h_fin h then
        let '(t, z, acc) := cur1 in
        let '(es, c) := reassemble None r in (EvMsg t z acc :: es, c)
      else reassemble (Some cur1) r
  end.

Definition ref_events (fs : list pframe) : list ev := fst (reassemble None fs).

(* ---- RFC 7692 §7.2.2 decompression, parameterised by an inflate oracle ---- *)
Inductive istatus := INeedMore | IFinal (consumed : nat) | ICorrupt.

Section Inflate.
Variable inflate : bytes -> bytes -> bytes * istatus.     (* dictionary -> deflate input -> output, how it ended *)

(* a message payload decompresses to [out] iff inflating payload ++ 00 00 ff ff with the dictionary
   yields out and then runs out of input (no final block), or ends with a final block (BFINAL, §7.2.3.4) *)
Definition inflate_msg (dict payload : bytes) : option bytes :=
  match inflate dict (payload ++ c_deflateMessageTail) with
  | (out, INeedMore) => Some out
  | (out, IFinal _) => Some out
  | (_, ICorrupt) => None
  end.

Definition window (dict out : bytes) : bytes := lastn (Z.to_nat c_windowSize) (dict ++ out).

(* messages as the receiver must understand them; takeover = the SENDER keeps its context *)
Fixpoint ref_messages (takeover : bool) (dict : bytes) (es : list ev) : list (option (N * bytes)) :=
  match es with
  | [] => []
  | EvCtl _ _ :: r => ref_messages takeover dict r
  | EvMsg t false p :: r => Some (t, p) :: ref_messages takeover dict r
  | EvMsg t true p :: r =>
    match inflate_msg dict p with
    | Some out => Some (t, out) :: ref_messages takeover (if takeover then window dict out else []) r
    | None => [None]
    end
  end.
End Inflate.
