(* Model/Handshake.v — executable definitions only.  The handshake decisions of accept.go and dial.go as pure
   functions on header records: header tokens, permessage-deflate negotiation (both ends), subprotocol
   selection, verifyClientRequest / Accept's response, handshakeRequest / verifyServerResponse.
   Stdlib functions are re-implemented for ASCII (strings.TrimSpace, strings.Split, EqualFold via Fold.v). *)
From Coq Require Import List NArith ZArith Bool.
From WS Require Import Base.Words Gen.Consts Model.Proto Model.Fold Model.Base64 Model.Sha1 Model.Origin.
Import ListNotations.
Open Scope N_scope.

(* ---------------- strings ---------------- *)
Fixpoint hs_beq (a b : bytes) : bool :=
  match a, b with [], [] => true | x :: a', y :: b' => (x =? y) && hs_beq a' b' | _, _ => false end.

(* ASCII white space as strings.TrimSpace sees it: \t \n \v \f \r space (non-ASCII space runes are not modelled) *)
Definition hs_is_space (c : N) : bool := (c =? 32) || ((9 <=? c) && (c <=? 13)).
Fixpoint hs_trim_left (s : bytes) : bytes := match s with c :: r => if hs_is_space c then hs_trim_left r else s | [] => [] end.
Definition hs_trim (s : bytes) : bytes := rev (hs_trim_left (rev (hs_trim_left s))).

(* strings.Split(s, sep) for a one-byte separator: always at least one field *)
Fixpoint hs_split (sep : N) (s : bytes) (cur : bytes) : list bytes :=
  match s with
  | [] => [rev cur]
  | c :: r => if c =? sep then rev cur :: hs_split sep r [] else hs_split sep r (c :: cur)
  end.

Fixpoint hs_prefix (p s : bytes) : option bytes :=   (* Some rest when s starts with p *)
  match p, s with [], _ => Some s | x :: p', y :: s' => if x =? y then hs_prefix p' s' else None | _, _ => None end.

(* ---------------- headers (canonical keys, as net/http delivers them) ---------------- *)
Definition headers := list (bytes * list bytes).
Fixpoint hs_values (h : headers) (k : bytes) : list bytes :=
  match h with [] => [] | (k', vs) :: r => if hs_beq k k' then vs else hs_values r k end.
Definition hs_get (h : headers) (k : bytes) : bytes := match hs_values h k with v :: _ => v | [] => [] end.   (* Header.Get *)

(* headerTokens (accept.go:331-342) *)
Definition hs_tokens (h : headers) (k : bytes) : list bytes :=
  flat_map (fun v => map hs_trim (hs_split 44 (hs_trim v) [])) (hs_values h k).

(* headerContainsTokenIgnoreCase (accept.go:294-301) *)
Definition hs_has_token (h : headers) (k tok : bytes) : bool := existsb (fun t => fold_eq t tok) (hs_tokens h k).

(* ---------------- literals ---------------- *)
Definition s_Connection := [67;111;110;110;101;99;116;105;111;110].
Definition s_Upgrade := [85;112;103;114;97;100;101].
Definition s_upgrade_lc := [117;112;103;114;97;100;101].
Definition s_websocket := [119;101;98;115;111;99;107;101;116].
Definition s_GET := [71;69;84].
Definition s_13 := [49;51].
Definition s_SecVersion := [83;101;99;45;87;101;98;115;111;99;107;101;116;45;86;101;114;115;105;111;110].          (* Sec-Websocket-Version *)
Definition s_SecKey := [83;101;99;45;87;101;98;115;111;99;107;101;116;45;75;101;121].                              (* Sec-Websocket-Key *)
Definition s_SecAccept := [83;101;99;45;87;101;98;115;111;99;107;101;116;45;65;99;99;101;112;116].                 (* Sec-Websocket-Accept *)
Definition s_SecProtocol := [83;101;99;45;87;101;98;115;111;99;107;101;116;45;80;114;111;116;111;99;111;108].      (* Sec-Websocket-Protocol *)
Definition s_SecExtensions := [83;101;99;45;87;101;98;115;111;99;107;101;116;45;69;120;116;101;110;115;105;111;110;115]. (* Sec-Websocket-Extensions *)
Definition s_Origin := [79;114;105;103;105;110].
Definition s_pmd := [112;101;114;109;101;115;115;97;103;101;45;100;101;102;108;97;116;101].                         (* permessage-deflate *)
Definition s_cnct := [99;108;105;101;110;116;95;110;111;95;99;111;110;116;101;120;116;95;116;97;107;101;111;118;101;114].  (* client_no_context_takeover *)
Definition s_snct := [115;101;114;118;101;114;95;110;111;95;99;111;110;116;101;120;116;95;116;97;107;101;111;118;101;114]. (* server_no_context_takeover *)
Definition s_cmwb := [99;108;105;101;110;116;95;109;97;120;95;119;105;110;100;111;119;95;98;105;116;115].                   (* client_max_window_bits *)
Definition s_smwb := [115;101;114;118;101;114;95;109;97;120;95;119;105;110;100;111;119;95;98;105;116;115].                  (* server_max_window_bits *)

(* ---------------- permessage-deflate negotiation ---------------- *)
Inductive cmode := MDisabled | MTakeover | MNoTakeover.                       (* CompressionMode *)
Definition mode_opts (m : cmode) : copts :=                                    (* CompressionMode.opts, compress.go:53-58 *)
  match m with MNoTakeover => {| cnct := true; snct := true |} | _ => {| cnct := false; snct := false |} end.

Record wsext := { x_name : bytes; x_params : list bytes }.

(* websocketExtensions (accept.go:308-329) *)
Definition hs_exts (h : headers) : list wsext :=
  flat_map (fun t => match t with
                     | [] => []
                     | _ => match map hs_trim (hs_split 59 t []) with
                            | n :: ps => [{| x_name := n; x_params := ps |}]
                            | [] => [] end
                     end) (hs_tokens h s_SecExtensions).

(* validWindowBits: "8".."15" *)
Definition hs_valid_bits (s : bytes) : bool :=
  match s with
  | [d] => (d =? 56) || (d =? 57)
  | [49; d] => (48 <=? d) && (d <=? 53)
  | _ => false
  end.

Definition hs_pname (p : bytes) : bytes := match hs_split 61 p [] with n :: _ => n | [] => [] end.   (* part before '=' *)
Fixpoint hs_has_dup (ps : list bytes) (seen : list bytes) : bool :=
  match ps with
  | [] => false
  | p :: r => let n := hs_pname p in if existsb (hs_beq n) seen then true else hs_has_dup r (n :: seen)
  end.

(* acceptDeflate (accept.go) *)
Fixpoint accept_params (ps : list bytes) (c : copts) : option copts :=
  match ps with
  | [] => Some c
  | p :: r =>
    if hs_beq p s_cnct then accept_params r {| cnct := true; snct := snct c |}
    else if hs_beq p s_snct then accept_params r {| cnct := cnct c; snct := true |}
    else if hs_beq p s_cmwb then accept_params r c
    else if hs_beq p (s_smwb ++ [61; 49; 53]) then accept_params r c
    else match hs_prefix (s_cmwb ++ [61]) p with
         | Some v => if hs_valid_bits v then accept_params r c else None
         | None => None
         end
  end.
Definition accept_deflate (e : wsext) (m : cmode) : option copts :=
  if hs_has_dup (x_params e) [] then None else accept_params (x_params e) (mode_opts m).

(* selectDeflate (accept.go:252-268): the first acceptable permessage-deflate offer *)
Fixpoint select_deflate_from (es : list wsext) (m : cmode) : option copts :=
  match es with
  | [] => None
  | e :: r => if hs_beq (x_name e) s_pmd then
                match accept_deflate e m with Some c => Some c | None => select_deflate_from r m end
              else select_deflate_from r m
  end.
Definition select_deflate (es : list wsext) (m : cmode) : option copts :=
  match m with MDisabled => None | _ => select_deflate_from es m end.

(* compressionOptions.String (compress.go:65-74) *)
Definition render_copts (c : copts) : bytes :=
  s_pmd ++ (if cnct c then [59; 32] ++ s_cnct else []) ++ (if snct c then [59; 32] ++ s_snct else []).

(* verifyServerExtensions (dial.go) *)
Inductive vres (A : Type) := VOk (a : A) | VErr.
Arguments VOk {A}. Arguments VErr {A}.

Fixpoint verify_params (ps : list bytes) (c : copts) : option copts :=
  match ps with
  | [] => Some c
  | p :: r =>
    if hs_beq p s_cnct then verify_params r {| cnct := true; snct := snct c |}
    else if hs_beq p s_snct then verify_params r {| cnct := cnct c; snct := true |}
    else match hs_prefix (s_smwb ++ [61]) p with
         | Some v => if hs_valid_bits v then verify_params r c else None
         | None => None
         end
  end.

Definition verify_exts (offer : option copts) (h : headers) : vres (option copts) :=
  match hs_exts h with
  | [] => VOk None
  | e :: rest =>
    match offer with
    | None => VErr
    | Some o =>
      if negb (hs_beq (x_name e) s_pmd) || (match rest with [] => false | _ => true end) then VErr else
      if hs_has_dup (x_params e) [] then VErr else
      match verify_params (x_params e) {| cnct := cnct o; snct := false |} with
      | Some c => VOk (Some c)
      | None => VErr
      end
    end
  end.

(* ---------------- subprotocols ---------------- *)
(* selectSubprotocol (accept.go:240-250): first server-preferred entry that folds equal to a client token; the CLIENT's spelling *)
Fixpoint find_fold (sp : bytes) (cps : list bytes) : option bytes :=
  match cps with [] => None | cp :: r => if fold_eq sp cp then Some cp else find_fold sp r end.
Fixpoint select_subprotocol (server : list bytes) (cps : list bytes) : bytes :=
  match server with
  | [] => []
  | sp :: r => match find_fold sp cps with Some cp => cp | None => select_subprotocol r cps end
  end.

(* ---------------- Accept ---------------- *)
Record hreq := { q_method : bytes; q_major : nat; q_minor : nat; q_host : bytes; q_hdrs : headers }.
Record aopts := { a_subprotocols : list bytes; a_skip_verify : bool; a_patterns : list bytes; a_mode : cmode }.

(* secWebSocketAccept (accept.go:346-352) *)
Definition accept_key (k : bytes) : bytes := b64_encode (sha1 (k ++ c_keyGUID)).

(* verifyClientRequest (accept.go:162-204): 0 = ok, else the HTTP status *)
Definition verify_client_request (r : hreq) : nat :=
  if negb (Nat.ltb 1 (q_major r) || (Nat.eqb (q_major r) 1 && Nat.leb 1 (q_minor r))) then 426%nat else
  if negb (hs_has_token (q_hdrs r) s_Connection s_Upgrade) then 426%nat else
  if negb (hs_has_token (q_hdrs r) s_Upgrade s_websocket) then 426%nat else
  if negb (hs_beq (q_method r) s_GET) then 405%nat else
  if negb (hs_beq (hs_get (q_hdrs r) s_SecVersion) s_13) then 400%nat else
  match hs_values (q_hdrs r) s_SecKey with
  | [k] => match b64_decode (hs_trim k) with
           | Some d => if Nat.eqb (length d) 16 then 0%nat else 400%nat
           | None => 400%nat
           end
  | _ => 400%nat
  end.

Record aresult := { ar_status : nat;                   (* 101 = upgraded; otherwise the HTTP error status *)
                    ar_accept : bytes;                 (* Sec-WebSocket-Accept *)
                    ar_subproto : bytes;               (* Sec-WebSocket-Protocol ("" = none) *)
                    ar_copts : option copts }.         (* negotiated permessage-deflate, also the response header *)

Definition origin_hdr (r : hreq) : option bytes := match hs_values (q_hdrs r) s_Origin with v :: _ => Some v | [] => None end.

(* accept (accept.go:86-160), hijackable ResponseWriter *)
Definition accept_decide (r : hreq) (o : aopts) : aresult :=
  let fail st := {| ar_status := st; ar_accept := []; ar_subproto := []; ar_copts := None |} in
  match verify_client_request r with
  | O =>
    if negb (a_skip_verify o) && (match origin_authenticate (q_host r) (origin_hdr r) (a_patterns o) with ORefuse => true | OAllow => false end)
    then fail 403%nat
    else {| ar_status := 101; ar_accept := accept_key (hs_get (q_hdrs r) s_SecKey);
            ar_subproto := select_subprotocol (a_subprotocols o) (hs_tokens (q_hdrs r) s_SecProtocol);
            ar_copts := select_deflate (hs_exts (q_hdrs r)) (a_mode o) |}
  | st => fail st
  end.

(* ---------------- Dial ---------------- *)
Record dopts := { d_subprotocols : list bytes; d_mode : cmode }.
Record hresp := { p_status : nat; p_hdrs : headers }.

Definition dial_offer (o : dopts) : option copts := match d_mode o with MDisabled => None | m => Some (mode_opts m) end.

Fixpoint hs_join (sep : bytes) (l : list bytes) : bytes :=
  match l with [] => [] | [x] => x | x :: r => x ++ sep ++ hs_join sep r end.

(* the headers handshakeRequest sets (dial.go:171-204); caller headers with other keys pass through unchanged *)
Definition dial_headers (o : dopts) (key64 : bytes) : headers :=
  [(s_Connection, [s_Upgrade]); (s_Upgrade, [s_websocket]); (s_SecVersion, [s_13]); (s_SecKey, [key64])]
  ++ (match d_subprotocols o with [] => [] | l => [(s_SecProtocol, [hs_join [44] l])] end)
  ++ (match dial_offer o with None => [] | Some c => [(s_SecExtensions, [render_copts c])] end).

(* verifyServerResponse (dial.go:225-251) + verifySubprotocol *)
Definition verify_server_response (o : dopts) (key64 : bytes) (resp : hresp) : vres (option copts) :=
  if negb (Nat.eqb (p_status resp) 101) then VErr else
  if negb (hs_has_token (p_hdrs resp) s_Connection s_Upgrade) then VErr else
  if negb (hs_has_token (p_hdrs resp) s_Upgrade s_websocket) then VErr else
  if negb (hs_beq (hs_get (p_hdrs resp) s_SecAccept) (accept_key key64)) then VErr else
  let proto := hs_get (p_hdrs resp) s_SecProtocol in
  if negb (match proto with [] => true | _ => existsb (fun sp => fold_eq sp proto) (d_subprotocols o) end) then VErr else
  verify_exts (dial_offer o) (p_hdrs resp).
