(* Model/Mask.v — executable definitions only.
   mask_spec : the RFC 6455 §5.3 definition.  maskGo : mirrors /repo/mask.go:19-128. *)
From Coq Require Import List NArith Lia.
From WS Require Import Base.Words.
Import ListNotations.
Open Scope N_scope.

Definition key := (N * N * N * N)%type.          (* the uint32 key as its 4 little-endian bytes *)

(* spec: byte i xor key byte (i mod 4); the rotation is built into the recursion *)
Fixpoint xorc (k0 k1 k2 k3 : N) (b : bytes) : bytes :=
  match b with [] => [] | x :: r => N.lxor x k0 :: xorc k1 k2 k3 k0 r end.
Definition rotk (k : key) (n : nat) : key :=
  let '(k0,k1,k2,k3) := k in
  match Nat.modulo n 4 with 0%nat => (k0,k1,k2,k3) | 1%nat => (k1,k2,k3,k0) | 2%nat => (k2,k3,k0,k1) | _ => (k3,k0,k1,k2) end.
Definition mask_spec (k : key) (b : bytes) : bytes := let '(k0,k1,k2,k3) := k in xorc k0 k1 k2 k3 b.

(* ---- model of maskGo (mask.go:19-128) ---- *)
Definition key4 (k : key) : bytes := let '(k0,k1,k2,k3) := k in [k0;k1;k2;k3].
Definition key8 k := key4 k ++ key4 k.        (* key64 := uint64(key)<<32 | uint64(key) *)

(* apply f to consecutive w-byte words of a block whose length is a multiple of w *)
Fixpoint words (fuel w : nat) (f : bytes -> bytes) (b : bytes) : bytes :=
  match fuel with O => b | S fu => match b with [] => [] | _ => f (firstn w b) ++ words fu w f (skipn w b) end end.

(* for len(b) >= blk { process blk bytes word by word; b = b[blk:] } *)
Fixpoint block_loop (fuel blk w : nat) (f : bytes -> bytes) (b : bytes) : bytes * bytes :=
  match fuel with
  | O => ([], b)
  | S fu => if Nat.leb blk (length b)
            then let '(p, r) := block_loop fu blk w f (skipn blk b) in (words blk w f (firstn blk b) ++ p, r)
            else ([], b)
  end.

(* for i := range b { b[i] ^= byte(key); key = RotateLeft32(key, -8) } *)
Fixpoint tail_loop (k0 k1 k2 k3 : N) (b : bytes) : bytes * key :=
  match b with [] => ([], (k0,k1,k2,k3))
  | x :: r => let '(o, k) := tail_loop k1 k2 k3 k0 r in (N.lxor x k0 :: o, k) end.

Definition maskGo (k : key) (b : bytes) : bytes * key :=
  let n := length b in
  let x64 := xor_word (key8 k) in
  let '(o1, b1) := if Nat.leb 8 n then
       let '(p128, r) := block_loop n 128 8 x64 b in
       let '(p64, r) := block_loop n 64 8 x64 r in
       let '(p32, r) := block_loop n 32 8 x64 r in
       let '(p16, r) := block_loop n 16 8 x64 r in
       let '(p8, r) := block_loop n 8 8 x64 r in
       (p128 ++ p64 ++ p32 ++ p16 ++ p8, r)
     else ([], b) in
  let '(p4, b2) := block_loop n 4 4 (xor_word (key4 k)) b1 in
  let '(k0,k1,k2,k3) := k in
  let '(pt, k') := tail_loop k0 k1 k2 k3 b2 in
  (o1 ++ p4 ++ pt, k').

Definition wf_key (k : key) := let '(k0,k1,k2,k3) := k in k0 < 256 /\ k1 < 256 /\ k2 < 256 /\ k3 < 256.

(* masking a buffer in consecutive pieces, carrying the rotated key (what write.go:318-355 and read.go:457-459 do) *)
Definition mask_piece (st : bytes * key) (p : bytes) : bytes * key :=
  let '(out, k) := st in let '(o, k') := maskGo k p in (out ++ o, k').
