(* Model/Base64.v — executable base64 (RFC 4648 standard alphabet, '=' padding),
   decode mirrors Go 1.23 base64.StdEncoding.DecodeString (non-strict).  Definitions only. *)
From Coq Require Import List NArith Bool.
From WS Require Import Base.Words.
Import ListNotations.
Open Scope N_scope.

Definition b64_pad : N := 61.   (* '=' *)

(* sextet -> alphabet character *)
Definition b64_enc_char (i : N) : N :=
  if i <? 26 then i + 65            (* A-Z *)
  else if i <? 52 then i + 71       (* a-z *)
  else if i <? 62 then i - 4        (* 0-9 *)
  else if i =? 62 then 43           (* + *)
  else 47.                          (* / *)

(* alphabet character -> sextet (Go's decodeMap; None is 0xff) *)
Definition b64_dec_char (c : N) : option N :=
  if (65 <=? c) && (c <=? 90) then Some (c - 65)
  else if (97 <=? c) && (c <=? 122) then Some (c - 71)
  else if (48 <=? c) && (c <=? 57) then Some (c + 4)
  else if c =? 43 then Some 62
  else if c =? 47 then Some 63
  else None.

Definition b64_is_alpha (c : N) : bool :=
  ((65 <=? c) && (c <=? 90)) || ((97 <=? c) && (c <=? 122)) ||
  ((48 <=? c) && (c <=? 57)) || (c =? 43) || (c =? 47).

Definition b64_is_nl (c : N) : bool := (c =? 10) || (c =? 13).

Fixpoint b64_encode (d : bytes) : bytes :=
  match d with
  | [] => []
  | [a] =>
      [b64_enc_char (a / 4 mod 64); b64_enc_char (a mod 4 * 16); b64_pad; b64_pad]
  | [a; b] =>
      [b64_enc_char (a / 4 mod 64); b64_enc_char (a mod 4 * 16 + b / 16 mod 16);
       b64_enc_char (b mod 16 * 4); b64_pad]
  | a :: b :: c :: r =>
      b64_enc_char (a / 4 mod 64) :: b64_enc_char (a mod 4 * 16 + b / 16 mod 16) ::
      b64_enc_char (b mod 16 * 4 + c / 64 mod 4) :: b64_enc_char (c mod 64) :: b64_encode r
  end.

(* four sextets -> the 24-bit value Go assembles *)
Definition b64_val (v0 v1 v2 v3 : N) : N := ((v0 * 64 + v1) * 64 + v2) * 64 + v3.
Definition b64_byte0 (v : N) : N := v / 65536 mod 256.
Definition b64_byte1 (v : N) : N := v / 256 mod 256.
Definition b64_byte2 (v : N) : N := v mod 256.

Definition b64_is_nil (s : bytes) : bool := match s with [] => true | _ => false end.

(* quanta of the newline-free input; padding only in the last quantum, nothing after it *)
Fixpoint b64_dec_quanta (s : bytes) : option bytes :=
  match s with
  | [] => Some []
  | c0 :: c1 :: c2 :: c3 :: r =>
      match b64_dec_char c0, b64_dec_char c1 with
      | Some v0, Some v1 =>
          match b64_dec_char c2 with
          | Some v2 =>
              match b64_dec_char c3 with
              | Some v3 =>
                  let v := b64_val v0 v1 v2 v3 in
                  match b64_dec_quanta r with
                  | Some t => Some (b64_byte0 v :: b64_byte1 v :: b64_byte2 v :: t)
                  | None => None
                  end
              | None =>
                  if (c3 =? b64_pad) && b64_is_nil r then
                    let v := b64_val v0 v1 v2 0 in Some [b64_byte0 v; b64_byte1 v]
                  else None
              end
          | None =>
              if (c2 =? b64_pad) && (c3 =? b64_pad) && b64_is_nil r then
                let v := b64_val v0 v1 0 0 in Some [b64_byte0 v]
              else None
          end
      | _, _ => None
      end
  | _ => None
  end.

(* Go skips '\r' and '\n' wherever they occur (also between and after the padding) *)
Definition b64_strip_nl (s : bytes) : bytes := filter (fun c => negb (b64_is_nl c)) s.

Definition b64_decode (s : bytes) : option bytes := b64_dec_quanta (b64_strip_nl s).
