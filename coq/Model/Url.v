(* Model/Url.v — executable model of the parts of Go 1.23.5 net/url that decide
   (a) whether url.Parse(s) returns an error and (b) the value of u.Host.
   Executable definitions only; every top-level name is prefixed [url_].
   Strings are byte lists with every element < 256 (behaviour otherwise unspecified).
   Everything is structurally recursive; no fuel is needed.

   [url_host_of s] = Some u.Host  iff  url.Parse(s) = (u, nil)
                   = None         iff  url.Parse(s) returns an error.

   Mirrors: Parse, parse(viaRequest=false), getScheme, parseAuthority, parseHost,
   validOptionalPort, validUserinfo, unescape (modes encodeHost, encodeZone and the
   modes that only check %XX well-formedness: encodePath, encodeUserPassword,
   encodeFragment), shouldEscape(_, encodeHost), stringContainsCTLByte, setPath, setFragment.
   Not modelled because they influence neither the error nor Host: Scheme lower-casing,
   ForceQuery/RawQuery, RawPath/RawFragment (escape/validEncoded), OmitHost, User contents. *)
From Coq Require Import List NArith Bool.
From WS Require Import Base.Words.
Import ListNotations.
Open Scope N_scope.

Definition url_is_nil (s : bytes) : bool := match s with [] => true | _ => false end.
Definition url_between (lo c hi : N) : bool := (lo <=? c) && (c <=? hi).
Definition url_is_alpha (c : N) : bool := url_between 97 c 122 || url_between 65 c 90.
Definition url_is_digit (c : N) : bool := url_between 48 c 57.

Definition url_starts (c : N) (s : bytes) : bool :=
  match s with x :: _ => x =? c | [] => false end.

Fixpoint url_mem (c : N) (l : list N) : bool :=
  match l with [] => false | x :: r => (c =? x) || url_mem c r end.

(* strings.Cut(s, c) for a one-byte separator: (before, Some after) or (s, None) *)
Fixpoint url_cut (c : N) (s : bytes) : bytes * option bytes :=
  match s with
  | [] => ([], None)
  | x :: r => if x =? c then ([], Some r)
              else let '(a, b) := url_cut c r in (x :: a, b)
  end.

(* split at the LAST occurrence of c: Some (s[:i], s[i+1:]) with i = strings.LastIndex(s, c) *)
Fixpoint url_rcut (c : N) (s : bytes) : option (bytes * bytes) :=
  match s with
  | [] => None
  | x :: r =>
    match url_rcut c r with
    | Some (a, b) => Some (x :: a, b)
    | None => if x =? c then Some ([], r) else None
    end
  end.

(* s[i:] from the first '/' on (s[i:] includes the '/'): (s[:i], s[i:]) or (s, "") *)
Fixpoint url_split_slash (s : bytes) : bytes * bytes :=
  match s with
  | [] => ([], [])
  | x :: r => if x =? 47 then ([], s)
              else let '(a, b) := url_split_slash r in (x :: a, b)
  end.

(* stringContainsCTLByte *)
Definition url_has_ctl (s : bytes) : bool := existsb (fun b => (b <? 32) || (b =? 127)) s.

(* ishex / unhex *)
Definition url_ishex (c : N) : bool :=
  url_between 48 c 57 || url_between 97 c 102 || url_between 65 c 70.
Definition url_unhex (c : N) : N :=
  if url_between 48 c 57 then c - 48
  else if url_between 97 c 102 then c - 97 + 10
  else if url_between 65 c 70 then c - 65 + 10
  else 0.

(* the bytes for which shouldEscape(c, encodeHost) = false (same set for encodeZone):
   alnum  ! $ & ' ( ) * + , ; = : [ ] < > dquote - _ . ~ *)
Definition url_host_ok_byte (c : N) : bool :=
  url_is_alpha c || url_is_digit c ||
  url_mem c [33; 36; 38; 39; 40; 41; 42; 43; 44; 59; 61; 58; 91; 93; 60; 62; 34; 45; 95; 46; 126].
Definition url_should_escape_host (c : N) : bool := negb (url_host_ok_byte c).

Inductive url_mode := UrlHost | UrlZone | UrlOther.

(* the per-%XX mode check of unescape (true = accepted) *)
Definition url_pct_ok (m : url_mode) (h1 h2 : N) : bool :=
  match m with
  | UrlHost => negb ((url_unhex h1 <? 8) && negb ((h1 =? 50) && (h2 =? 53)))
  | UrlZone => let v := 16 * url_unhex h1 + url_unhex h2 in
               negb (negb ((h1 =? 50) && (h2 =? 53)) && negb (v =? 32) && url_should_escape_host v)
  | UrlOther => true
  end.

(* the per-plain-byte mode check of unescape (true = accepted) *)
Definition url_plain_ok (m : url_mode) (c : N) : bool :=
  match m with
  | UrlOther => true
  | _ => negb ((c <? 128) && url_should_escape_host c)
  end.

(* unescape(s, mode) for the non-query modes: None = error, Some decoded *)
Fixpoint url_unescape (m : url_mode) (s : bytes) : option bytes :=
  match s with
  | [] => Some []
  | c :: r =>
    if c =? 37 then
      match r with
      | h1 :: h2 :: r' =>
        if url_ishex h1 && url_ishex h2 && url_pct_ok m h1 h2 then
          match url_unescape m r' with
          | Some t => Some ((16 * url_unhex h1 + url_unhex h2) :: t)
          | None => None
          end
        else None
      | _ => None
      end
    else if url_plain_ok m c then
      match url_unescape m r with
      | Some t => Some (c :: t)
      | None => None
      end
    else None
  end.

Definition url_unescape_ok (s : bytes) : bool :=
  match url_unescape UrlOther s with Some _ => true | None => false end.

(* validOptionalPort *)
Definition url_valid_port (p : bytes) : bool :=
  match p with
  | [] => true
  | c :: r => (c =? 58) && forallb url_is_digit r
  end.

(* validUserinfo; a byte >= 128 decodes to a rune >= 128 (or RuneError) and is rejected *)
Definition url_userinfo_byte (c : N) : bool :=
  url_is_alpha c || url_is_digit c ||
  url_mem c [45; 46; 95; 58; 126; 33; 36; 38; 39; 40; 41; 42; 43; 44; 59; 61; 37; 64].
Definition url_valid_userinfo (s : bytes) : bool := forallb url_userinfo_byte s.

(* strings.Index(s, "%25"): Some (s[:zone], s[zone:]) *)
Fixpoint url_zone_split (s : bytes) : option (bytes * bytes) :=
  match s with
  | [] => None
  | c :: r =>
    let here := match s with
                | a :: b :: d :: _ => (a =? 37) && (b =? 50) && (d =? 53)
                | _ => false
                end in
    if here then Some ([], s) else
    match url_zone_split r with
    | Some (a, b) => Some (c :: a, b)
    | None => None
    end
  end.

(* parseHost *)
Definition url_parse_host (host : bytes) : option bytes :=
  if url_starts 91 host then
    match url_rcut 93 host with
    | None => None                                   (* missing ']' in host *)
    | Some (pre, post) =>                            (* pre = host[:i], post = host[i+1:] *)
      if negb (url_valid_port post) then None else
      match url_zone_split pre with
      | Some (h1, z) =>
        match url_unescape UrlHost h1, url_unescape UrlZone z, url_unescape UrlHost (93 :: post) with
        | Some a, Some b, Some c => Some (a ++ b ++ c)
        | _, _, _ => None
        end
      | None => url_unescape UrlHost host
      end
    end
  else
    match url_rcut 58 host with
    | Some (_, post) => if forallb url_is_digit post then url_unescape UrlHost host else None
    | None => url_unescape UrlHost host
    end.

(* parseAuthority: None = error, Some host *)
Definition url_parse_authority (authority : bytes) : option bytes :=
  match url_rcut 64 authority with
  | None => url_parse_host authority
  | Some (userinfo, h) =>
    match url_parse_host h with
    | None => None
    | Some host =>
      if negb (url_valid_userinfo userinfo) then None else
      match url_cut 58 userinfo with
      | (_, None) => if url_unescape_ok userinfo then Some host else None
      | (username, Some password) =>
        if url_unescape_ok username && url_unescape_ok password then Some host else None
      end
    end
  end.

(* getScheme.  None = "missing protocol scheme"; Some None = no scheme (rest = rawURL);
   Some (Some rest) = non-empty scheme, rest after ':' *)
Fixpoint url_get_scheme (first : bool) (s : bytes) : option (option bytes) :=
  match s with
  | [] => Some None
  | c :: r =>
    if url_is_alpha c then url_get_scheme false r
    else if url_is_digit c || (c =? 43) || (c =? 45) || (c =? 46) then
      if first then Some None else url_get_scheme false r
    else if c =? 58 then
      if first then None else Some (Some r)
    else Some None
  end.

Definition url_has_prefix1 (s : bytes) : bool := url_starts 47 s.
Definition url_has_prefix2 (s : bytes) : bool := url_starts 47 s && url_starts 47 (skipn 1 s).
Definition url_has_prefix3 (s : bytes) : bool := url_has_prefix2 s && url_starts 47 (skipn 2 s).
(* rawURL == "*" *)
Definition url_is_star (s : bytes) : bool :=
  match s with [c] => c =? 42 | _ => false end.

(* parse(rawURL, viaRequest=false): None = error, Some Host *)
Definition url_parse (raw : bytes) : option bytes :=
  if url_has_ctl raw then None else
  if url_is_star raw then Some [] else
    match url_get_scheme true raw with
    | None => None
    | Some sch =>
      let has_scheme := match sch with Some _ => true | None => false end in
      let rest0 := match sch with Some r => r | None => raw end in
      let rest := fst (url_cut 63 rest0) in
      let authority_and_path (_ : unit) :=
        if (has_scheme || negb (url_has_prefix3 rest)) && url_has_prefix2 rest then
          let '(authority, path) := url_split_slash (skipn 2 rest) in
          match url_parse_authority authority with
          | None => None
          | Some h => if url_unescape_ok path then Some h else None
          end
        else if url_unescape_ok rest then Some [] else None in
      if url_has_prefix1 rest then authority_and_path tt
      else if has_scheme then Some []                               (* opaque *)
      else if url_mem 58 (fst (url_split_slash rest)) then None     (* colon in first segment *)
      else authority_and_path tt
    end.

(* Parse *)
Definition url_host_of (s : bytes) : option bytes :=
  let '(u, frag) := url_cut 35 s in
  match url_parse u with
  | None => None
  | Some h =>
    match frag with
    | None => Some h
    | Some f => if url_is_nil f || url_unescape_ok f then Some h else None
    end
  end.
