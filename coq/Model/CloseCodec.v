(* Model/CloseCodec.v — executable definitions only.  Mirrors /repo/close.go:261-329.
   valid_wire_code itself is TRANSLATED from the Go source on every run (Gen/CloseCode.v). *)
From Coq Require Import List NArith ZArith Bool.
From WS Require Import Base.Words Gen.Consts Gen.CloseCode.
Import ListNotations.

(* CloseError.bytesErr (close.go:316-329): None = refused *)
Definition close_bytes (code : Z) (reason : bytes) : option bytes :=
  if (c_maxCloseReason <? Z.of_nat (length reason))%Z then None
  else if negb (valid_wire_code code) then None
  else Some (be_bytes 2 (Z.to_N (code mod 65536)) ++ reason).     (* uint16(ce.Code) *)

(* payload of the Close frame that writeClose (close.go:171-197) sends, or None when it refuses *)
Definition close_payload (code : Z) (reason : bytes) : option bytes :=
  if (code =? c_StatusNoStatusRcvd)%Z then Some [] else close_bytes code reason.

(* parseClosePayload (close.go:261-282) *)
Definition parse_close (p : bytes) : option (Z * bytes) :=
  match p with
  | [] => Some (c_StatusNoStatusRcvd, [])
  | [_] => None
  | a :: b :: r => let code := Z.of_N (be_val [a; b]) in
                   if valid_wire_code code then Some (code, r) else None
  end.
