(* Model/Pools.v — executable definitions only.  Ownership of the pooled flate readers (compress.go flateReaderPool,
   read.go resetFlate / putFlateReader / msgReader.close / limitReader) across any number of connections:
   which object each connection holds, what its limitReader points to, and the shared pool. *)
From Coq Require Import List Arith Bool.
Import ListNotations.

Definition oid := nat.        (* identity of a pooled object *)
Definition cid := nat.        (* connection *)

Inductive pop :=
| PStart (c : cid) (o : oid)   (* a compressed message starts: resetFlate takes o from the pool (or creates it) and points limitReader.r at it *)
| PStartRaw (c : cid)          (* an uncompressed message starts: limitReader.r := readFunc *)
| PRead (c : cid)              (* msgReader.Read: reads through limitReader.r *)
| PEof (c : cid)               (* the message ended: putFlateReader (and limitReader.r := readFunc) *)
| PCloseInRead (c : cid)       (* Conn.close() reached from underneath Read (the peer's Close frame inside a message): release is deferred *)
| PReadEnd (c : cid)           (* that Read returns: the pending release happens *)
| PClose (c : cid).            (* Conn.close() from anywhere else *)

Record pconn := { p_fr : option oid;       (* msgReader.flateReader *)
                  p_lr : option oid;       (* limitReader.r when it is a flate reader (None: the raw readFunc) *)
                  p_reading : bool;        (* msgReader.reading *)
                  p_pending : bool;        (* msgReader.closePending *)
                  p_closed : bool }.

Record pst := { p_conns : cid -> pconn; p_free : list oid; p_known : list oid (* objects that exist *) }.

Definition pc0 : pconn := {| p_fr := None; p_lr := None; p_reading := false; p_pending := false; p_closed := false |}.
Definition pinit : pst := {| p_conns := fun _ => pc0; p_free := []; p_known := [] |}.

Definition updc (f : cid -> pconn) (c : cid) (x : pconn) : cid -> pconn := fun c' => if Nat.eqb c' c then x else f c'.
Arguments updc : simpl never.

Fixpoint remove1 (o : oid) (l : list oid) : list oid :=
  match l with [] => [] | x :: r => if Nat.eqb x o then r else x :: remove1 o r end.
Definition mem (o : oid) (l : list oid) : bool := existsb (Nat.eqb o) l.

(* release what the message reader holds (msgReader.release) *)
Definition release (s : pst) (c : cid) : pst :=
  let pc := p_conns s c in
  {| p_conns := updc (p_conns s) c {| p_fr := None; p_lr := None; p_reading := p_reading pc; p_pending := false; p_closed := true |};
     p_free := match p_fr pc with Some o => o :: p_free s | None => p_free s end; p_known := p_known s |}.

(* a use of object o by connection c, as observed *)
Inductive puse := Use (c : cid) (o : oid).

(* step: None = the operation is impossible in this state (e.g. taking an object somebody holds) *)
Definition pstep (s : pst) (op : pop) : option (pst * list puse) :=
  match op with
  | PStart c o =>
    let pc := p_conns s c in
    if p_closed pc then None else
    (* sync.Pool.Get hands out a pooled object or none (then a new one is created): never one that is held *)
    if mem o (p_free s) || negb (mem o (p_known s)) then
      (* a previous reader still held (message abandoned before its end) stays with the connection's old pointer: resetFlate overwrites it *)
      Some ({| p_conns := updc (p_conns s) c {| p_fr := Some o; p_lr := Some o; p_reading := p_reading pc; p_pending := p_pending pc; p_closed := false |};
               p_free := remove1 o (p_free s); p_known := if mem o (p_known s) then p_known s else o :: p_known s |}, [])
    else None
  | PStartRaw c =>
    let pc := p_conns s c in
    if p_closed pc then None else
    Some ({| p_conns := updc (p_conns s) c {| p_fr := p_fr pc; p_lr := None; p_reading := p_reading pc; p_pending := p_pending pc; p_closed := false |};
             p_free := p_free s; p_known := p_known s |}, [])
  | PRead c =>
    let pc := p_conns s c in
    Some ({| p_conns := updc (p_conns s) c {| p_fr := p_fr pc; p_lr := p_lr pc; p_reading := true; p_pending := p_pending pc; p_closed := p_closed pc |};
             p_free := p_free s; p_known := p_known s |},
          match p_lr pc with Some o => [Use c o] | None => [] end)
  | PEof c =>
    let pc := p_conns s c in
    Some ({| p_conns := updc (p_conns s) c {| p_fr := None; p_lr := None; p_reading := p_reading pc; p_pending := p_pending pc; p_closed := p_closed pc |};
             p_free := match p_fr pc with Some o => o :: p_free s | None => p_free s end; p_known := p_known s |}, [])
  | PCloseInRead c =>
    let pc := p_conns s c in
    if p_reading pc then
      Some ({| p_conns := updc (p_conns s) c {| p_fr := p_fr pc; p_lr := p_lr pc; p_reading := true; p_pending := true; p_closed := true |};
               p_free := p_free s; p_known := p_known s |}, [])
    else Some (release s c, [])
  | PReadEnd c =>
    let pc := p_conns s c in
    let s1 := {| p_conns := updc (p_conns s) c {| p_fr := p_fr pc; p_lr := p_lr pc; p_reading := false; p_pending := p_pending pc; p_closed := p_closed pc |};
                 p_free := p_free s; p_known := p_known s |} in
    if p_pending pc then Some (release s1 c, []) else Some (s1, [])
  | PClose c => Some (release s c, [])
  end.

Fixpoint prun (s : pst) (ops : list pop) : option (pst * list puse) :=
  match ops with
  | [] => Some (s, [])
  | op :: r => match pstep s op with
               | None => None
               | Some (s1, u) => match prun s1 r with Some (s2, us) => Some (s2, u ++ us) | None => None end
               end
  end.
