(* Model/Script.v — executable definitions only.  What a CONFORMANT peer may send (RFC 6455): a sequence of data
   messages, each a non-empty list of fragments (empty fragments allowed), with any number of Ping / Pong frames before
   each fragment; every frame masked with its own key iff the sender is a client.  Used to state the stream-level
   theorems about the Reader model. *)
From Coq Require Import List NArith ZArith Bool.
From WS Require Import Base.Words Model.Mask Model.Frame Model.Proto Model.Reader.
Import ListNotations.
Open Scope N_scope.

Record ctl := { c_opc : N (* 9 = Ping, 10 = Pong *); c_payload : bytes; c_key : key }.
Record frag := { fr_ctl : list ctl;            (* control frames sent before this fragment *)
                 fr_body : bytes; fr_key : key }.
Record smsg := { sm_typ : N (* 1 text, 2 binary *); sm_first : frag; sm_rest : list frag }.

Definition mk_hdr (masked fin : bool) (opc : N) (k : key) (n : nat) : hdr :=
  {| h_fin := fin; h_rsv1 := false; h_rsv2 := false; h_rsv3 := false; h_opc := opc;
     h_masked := masked; h_key := if masked then k else zero_key; h_plen := N.of_nat n |}.

Definition enc_ctl (masked : bool) (c : ctl) : bytes :=
  enc_frame (mk_hdr masked true (c_opc c) (c_key c) (length (c_payload c)), c_payload c).

Definition enc_frag (masked : bool) (opc : N) (f : frag) (last : bool) : bytes :=
  concat (map (enc_ctl masked) (fr_ctl f)) ++ enc_frame (mk_hdr masked last opc (fr_key f) (length (fr_body f)), fr_body f).

Definition is_nil {A} (l : list A) : bool := match l with [] => true | _ => false end.

Fixpoint enc_rest (masked : bool) (fs : list frag) : bytes :=
  match fs with [] => [] | f :: r => enc_frag masked 0 f (is_nil r) ++ enc_rest masked r end.

Definition enc_msg (masked : bool) (m : smsg) : bytes :=
  enc_frag masked (sm_typ m) (sm_first m) (is_nil (sm_rest m)) ++ enc_rest masked (sm_rest m).

Definition enc_script (masked : bool) (ms : list smsg) : bytes := concat (map (enc_msg masked) ms).

Definition wf_ctl (c : ctl) : Prop := (c_opc c = 9 \/ c_opc c = 10) /\ wf_bytes (c_payload c) /\ (length (c_payload c) <= 125)%nat /\ wf_key (c_key c).
Definition wf_frag (f : frag) : Prop :=
  Forall wf_ctl (fr_ctl f) /\ wf_bytes (fr_body f) /\ N.of_nat (length (fr_body f)) < 9223372036854775808 /\ wf_key (fr_key f).
Definition wf_smsg (m : smsg) : Prop := (sm_typ m = 1 \/ sm_typ m = 2) /\ wf_frag (sm_first m) /\ Forall wf_frag (sm_rest m).

Definition sm_payload (m : smsg) : bytes := fr_body (sm_first m) ++ concat (map fr_body (sm_rest m)).
Definition sm_ctls (m : smsg) : list ctl := fr_ctl (sm_first m) ++ concat (map fr_ctl (sm_rest m)).

(* what the application must see, and what the endpoint must have written / noted *)
Definition expected_obs (ms : list smsg) : list obs := flat_map (fun m => [ObReader (inl (sm_typ m)); ObMsg (sm_payload m) None]) ms.
Definition expected_pongs_written (ms : list smsg) : list reply :=
  flat_map (fun c => if c_opc c =? 9 then [RpPong (c_payload c)] else []) (flat_map sm_ctls ms).
Definition expected_pong_notes (ms : list smsg) : list bytes :=
  flat_map (fun c => if c_opc c =? 10 then [c_payload c] else []) (flat_map sm_ctls ms).

(* the read script: per message one Reader call, then reads with the given buffer size until the message ends *)
Definition read_ops (sizes : list nat) : list rop := flat_map (fun n => [OReader; OReadAllN n]) sizes.
