#!/bin/sh
# Run once after a fresh restore, offline: builds the framework from files on disk only.
set -e
cd "$(dirname "$0")"
export GOFLAGS=-mod=mod GOPROXY=off GOSUMDB=off GOTOOLCHAIN=local
mkdir -p build/bin evidence replay
# translator first: coq/Gen/*.v are regenerated from /repo before the Coq build
(cd tools/constx && go build -o ../../build/bin/constx .)
./build/bin/constx "${VERIF_REPO:-/repo}" coq/Gen
# clean, full .vo build of the Coq development (never -vos)
(cd coq && rm -f Makefile Makefile.conf .Makefile.d && find . -name '*.vo' -o -name '*.vok' -o -name '*.vos' -o -name '*.glob' -o -name '.*.aux' | xargs rm -f \
  && coq_makefile -f _CoqProject -o Makefile && timeout 3000 make -j16 >/dev/null)
# extracted model + driver
mkdir -p build/ocaml && cp coq/model.ml coq/model.mli ocaml/*.ml build/ocaml/ \
  && (cd build/ocaml && ocamlfind ocamlopt -package unix -linkpkg -O3 -unsafe -inline 100 -w -a model.mli model.ml util.ml main.ml -o wsmodel && rm -f stamp)
# harness against /repo's working tree (warms the Go build cache)
cp "${VERIF_REPO:-/repo}/go.sum" harness/go.sum 2>/dev/null || true
(cd harness && go build -tags verif -o ../build/bin/wsharness .)
echo setup ok
