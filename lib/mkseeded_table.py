#!/usr/bin/env python3
"""Prints the table of §12 of DESIGN.md from seeded/*/meta.json and seeded/*/confirm.txt (written by tools/seedtry.sh)."""
import os, re, json, glob
ROOT = os.path.dirname(os.path.dirname(os.path.abspath(__file__)))
# history of the first trial of each change (2026-09-25/26) and what was strengthened afterwards
HISTORY = {
    'C05': 'first trial: reported without a failing input (the library panicked inside a writer goroutine and took the harness down) → panics in suite goroutines are now observations (`sched:panic`)',
    'C06': 'first trial: MISSED → close suite now sends a message and leaves it unread / partly read before Close (`pmsg` steps); per-case watchdog added (the change made Close hang the harness)',
    'C09': 'first trial: MISSED → life suite got the stall families `close-stall-k` / `cancel-stall-k` (k bytes of a 64-bit-length frame delivered in the same transport write as a complete frame); these also exposed the genuine defect repaired in 098000e',
    'C10': 'first trial: MISSED → caught by `cancel-stall-k` (a read blocked inside a partly buffered payload whose context is cancelled)',
    'C15': 'first trial: MISSED (the caller side of C15 had no model and no suite) → `Model/Ping.v`, theorems `C15_ok_own_pong` …, and the `ping` suite with near-miss Pong payloads',
    'C17': 'first trial: MISSED (only `maskGo`/`maskAsm` were exercised, the change is in the `mask` dispatcher) → `VerifMask` export, dispatcher cases with empty pieces, zero-length reads in wire-in scripts',
    'C18': 'first trial: MISSED → netconn suite sets deadlines (past / near future) from another goroutine while the call is blocked',
    'C20': 'first trial: reported without a failing input (sched replay disagreed) → life scenarios with a Close whose frame cannot be marshalled, goroutine snapshot taken when Close returns (before the harness cleans up)',
    'R3-A': 'third round (area: frame header encoder / writeFrame). First trial: MISSED — `C02` had no concurrent writers; now the sched suite (extra pinger goroutines, slow transport) runs for C02 too and its judge requires every masking key to be unique (`sched:mask-key-repeated`); the race detector does not see this one (crypto/rand writes through a syscall)',
    'R3-B': 'third round (area: trimLastFourBytesWriter); caught at the first trial by the pair and wire-out suites',
    'R3-C': 'third round (area: sliding window / dictionary). First trial: MISSED — the scripted sender never referred back across a BFINAL-terminated message (and the level-1 encoder ignores a preset dictionary) → the sender now keeps the plain-text window and starts fresh streams with it at a dictionary-aware level; family `bfinal-takeover-repeat`',
    'R3-D': 'third round (area: write-side timeout hand-over). First trial: MISSED → generic trace check "every frame is written with its context armed" and scenarios `stream-write-pong-between-then-cancel`, `cancel-during-stream-write`',
    'R3-E': 'third round (area: the channel mutex). First trial: MISSED → impatient writers (contexts of a few hundred microseconds) in the sched suite, a hook event for a lock wait that is given up, the `EGiveUp` transition in `Sched.v` (proofs repaired), and the replay flags a goroutine that releases msgWriter.mu while another one holds it (`sched:foreign-unlock`). The impatient writers also exposed the genuine defect repaired in fc4c3d6',
    'R3-F': 'third round (area: close payload codec); caught at the first trial (the same class as `seeded/R2-C06`)',
    'R3-G': 'third round (area: header token parsing); caught at the first trial by the hs-accept grid (repeated header lines)',
    'R3-H': 'third round (area: authenticateOrigin). First trial: MISSED → origin patterns that carry a scheme and origins with the authorised suffix in their query / fragment added to the hs-accept grid',
    'R3-I': 'third round (area: handshakeRequest). First trial: MISSED → hs-dial re-uses the caller\'s `HTTPHeader` map after an earlier Dial with other options and checks that Dial leaves it untouched (`hs-dial:caller-headers-modified`)',
    'R3-J': 'third round (area: netconn close / EOF translation). First trial: MISSED → netconn kinds `drop` (transport EOF / failure / protocol error without a Close frame must not read as io.EOF) and an `eof` flag on interrupted calls',
    'R4-K': 'fourth round (area: rendering of the negotiated extension); caught at the first trial',
    'R4-L': 'fourth round (area: verifySubprotocol); caught at the first trial (multi-valued Sec-WebSocket-Protocol responses are in the hs-dial grid)',
    'R4-M': 'fourth round (area: ping counter); caught at the first trial (`ping:payloads-not-distinct`)',
    'R4-N': 'fourth round (area: handleControl). First trial: MISSED → ping-suite reaction `q`: the peer sends a PING with the payload of the outstanding ping; it must be answered, not taken for the Pong',
    'R4-O': 'fourth round (area: readLoop RSV1 rule); caught at the first trial',
    'R4-P': 'fourth round (area: ensureFlate / writer reset); caught at the first trial by pair and wire-out',
    'R4-Q': 'fourth round (area: deadline reset with the zero time); caught at the first trial (the `idle-*` cases reset the deadline and call again)',
    'R4-R': 'fourth round (area: closeHandshake result); caught at the first trial',
    'R4-S': 'fourth round (area: wsjson.Write). First trial: MISSED → wsjson kind `rawwrite` (nil / malformed / valid / nested json.RawMessage values)',
    'R4-T': 'fourth round (area: method check of verifyClientRequest); caught at the first trial',
    'R5-U': 'fifth round (area: handshake nonce); caught at the first trial (concurrent Dials of the hs-dial suite got duplicate keys / a panic; the nonce-freshness check across two Dials was added just before)',
    'R5-V': 'fifth round (area: newConn / bufio sizing); caught at the first trial',
    'R5-W': 'fifth round (area: wsjson.Read buffer release); caught at the first trial by the `overlap` kind',
    'R5-X': 'fifth round (area: Accept after verification). First trial: MISSED → hs-accept cases through a ResponseWriter that cannot be hijacked (valid request => 501, never 101)',
    'R5-Y': 'fifth round (area: SetReadLimit bookkeeping); caught at the first trial (default-limit boundary 32768 / 32769)',
    'R5-Z': 'fifth round (area: error-triggered closes); caught at the first trial',
    'R6-A': 'sixth round (area: sliding-window and flate-writer pools). First trial: MISSED (no history made the LAST frame of a compressed message fail) → pools op `wfail` (the transport refuses the write of the final frame, the connection goes away inside Write); the replay then reports the second Put (`put-by-non-holder`)',
    'R6-B': 'sixth round (area: netconn deadlines and return values); caught at the first trial (`afterreset` of the idle-deadline kinds)',
    'R6-C': 'sixth round (area: authenticateOrigin / match); caught at the first trial (origin x pattern grid: suffix look-alikes of `*.domain`)',
    'R6-D': 'sixth round (area: permessage-deflate parameters); caught at the first trial (two server handshakes with different offers in one process)',
    'R6-E': 'sixth round (area: msgReader.read bookkeeping); caught at the first trial (cut sweep inside the final frame)',
    'R6-F': 'sixth round (area: msgWriter / writeFrameHeader); caught at the first trial (streamed message whose first chunk is below the threshold)',
    'R6-G': 'sixth round (area: readFrameHeader / readLoop checks); caught at the first trial (RSV2 / RSV3 with negotiated compression)',
    'R6-H': 'sixth round (area: mask.go); caught at the first trial (length x alignment grid of the mask suite)',
    'R7-A': 'seventh round (area: close / CloseNow / waitGoroutines). First trial: MISSED (the join of the CloseRead goroutine was skipped only when the context given to CloseRead was already cancelled; the goroutine is then late by microseconds) → life scenario `closeread-parent-cancelled-closenow` (60 rounds of CloseRead(ctx); cancel(); CloseNow() on fresh connections, the exit hook must precede the return of CloseNow)',
    'R7-B': 'seventh round (area: timeoutLoop / arming of the timeouts); caught at the first trial (the arming discipline read off the hook trace: a frame written without its own arm / clear)',
    'R7-C': 'seventh round (area: Conn.ping / pong branch of handleControl); First trial: reported, but WITHOUT a failing input (the library panicked on one of its own goroutines — the CloseRead goroutine — and took the harness process down: `no-failing-input-found`) → the harness keeps a journal of started / finished cases and the orchestrator re-runs the cases that were running one by one: the case that kills the process is the replay (`ping:library-panic`)',
    'R7-D': 'seventh round (area: locks of the streaming write path); caught at the first trial (race detector run of the sched suite, and the replay: foreign unlock)',
    'R7-E': 'seventh round (area: end of a compressed message); caught at the first trial (cut sweep inside the final frame of compressed messages)',
    'R7-F': 'seventh round (area: limitReader.Read); caught at the first trial (limit+1 bytes ending in a BFINAL block)',
    'R8-A': 'eighth round (area: Dial with compression disabled); caught at the first trial (hs-dial grid: unsolicited permessage-deflate answer x mode disabled)',
    'R8-B': 'eighth round (area: per-direction context takeover). First trial: MISSED by C14 (caught by C03: wire-in streams with asymmetric options) — two endpoints of this library never negotiate an asymmetric agreement, and C14 had only library-library exchanges → suites `agree-in` / `agree-out` (every flag combination x both roles, a reference peer that applies the agreement, repeated text so that later messages refer back); the translator now also reads both flateContextTakeover functions (`C14_reader_takeover_is_source`, `C14_writer_takeover_is_source`), which this change breaks as well',
    'R8-C': 'eighth round (area: authenticateOrigin, Host fed to the glob matcher); caught at the first trial (hs-accept grid: IPv6-literal hosts) — the translator (Gen/OriginCode.v) refuses the changed function too',
    'R8-D': 'eighth round (area: wsjson.Read fast path for RawMessage); caught at the first trial (raw targets re-compared after later reads)',
    'R8-E': 'eighth round (area: NetConn deadlines in the past); caught at the first trial (`active-setpast`)',
    'R8-F': 'eighth round (area: Close / CloseNow state); caught at the first trial (close suite: CloseNow after a returned Close)',
    'R8-G': 'eighth round (area: readFramePayload short reads); caught at the first trial (control-frame payload split across transport reads)',
    'R8-H': 'eighth round (area: matching of Pongs by number instead of by payload); caught at the first trial (near-miss Pong payloads: zero padded)',
    'R9-A': 'ninth round (area: ensureFlate, sender without context takeover); caught at the first trial (wire-out: streamed message with two chunks above the threshold)',
    'R9-B': 'ninth round (area: compression decided at the first non-empty Write); caught at the first trial (wire-out: empty first chunk of a streamed message)',
    'R9-C': 'ninth round (area: frame length compared with the read budget); caught at the first trial (wire-in: compressed payload longer than the limit that inflates to fewer bytes)',
    'R9-D': 'ninth round (area: close-sent flag replaced by the last written opcode); caught at the first trial (close suite: a Pong between the Close frame and the echo)',
    'R9-E': 'ninth round (area: bufio reader pool; early release when the read limit trips on a compressed message). First trial: MISSED — the pools suite always ran without a read limit → op `limit` (random histories and explicit ones: the limit trips in the middle of a compressed message, the connection is closed, the next two connections read in alternation); server role: `pools:foreign-bytes`; client role: the library recurses without bound (a connection reads its frames through the buffered reader of its own inflater) and the runtime kills the process with a fatal error, which the orchestrator now localises like a panic (`pools:library-panic`, the case as replay); the minimised histories are in `corpus/pools.cases`',
    'R9-F': 'ninth round (area: payload accounting before the read); caught at the first trial (cut sweep: transport ends right after the header of the final frame)',
    'R2-C19': 'second round. Caught at the first trial, but only by chance (two wsjson cases of the same run happened to share the doubly pooled buffer): the final regression over all seeded changes missed it once → wsjson kind `overlap` (a rejected document, then two overlapping reads on other connections under GOMAXPROCS(1)) makes it deterministic',
    'R2-C04': 'second round, first trial: MISSED (the sweep of cut offsets used only 7-bit frame lengths) → header-region cut sweep over every length encoding and order (16-bit first on a fresh connection, after a 64-bit one, after a multiple of 256), both roles, both endings',
    'R2-C07': 'second round, first trial: MISSED (the suite always read a message to its end before the next one) → histories that start the next message after reading only a prefix of a small compressed one (`msgnf` / `plainnf`); the replay then reports `put-by-non-holder`',
    'R2-C02': 'second round; the sub-agent arrived at the same slip as `seeded/C01` independently',
    'R2-C05': 'second round. The change (partly received payload returned still masked when a Read fails mid-frame) is a C04 matter — the unmasking repair 79af380 reverted — and is caught by C04; C05 (write-side concurrency) rightly does not react',
    'R2-C09': 'second round, first trial: MISSED → life scenarios `closeread-twice-*` (the context of a second CloseRead call must be cancelled, too)',
    'R2-C10': 'second round, first trial: MISSED → scenario `emptyfin-read-then-cancel` (message ending in an empty final continuation frame) and a general trace check: after every call that returned nil the last arm event of each side must be the re-arm with Background',
    'R2-C18': 'second round, first trial: MISSED → netconn cases `idle-midmessage-*` (deadline passes while a message is only partly read)',
    'R2-C20': 'second round, first trial: MISSED → the CloseRead goroutine\'s exit hook now fires after its context was cancelled (repo 2c5f3bb) and the scenario `closeread-derived-contexts-closenow` makes that cancellation slow; goroutine snapshot at the moment CloseNow returns',
    'C14': 'also makes C01 report a correspondence break without a failing input (shared options change under the pair suite)',
}
print('| seeded change (property it breaks) | what it does | what it needs to show | confirmed | checks run on it → result (current machinery) | history |')
print('|---|---|---|---|---|---|')
for d in sorted(glob.glob(os.path.join(ROOT, 'seeded', 'C*'))) + sorted(glob.glob(os.path.join(ROOT, 'seeded', 'R2-C*'))) + sorted(glob.glob(os.path.join(ROOT, 'seeded', 'R3-*'))) + sorted(glob.glob(os.path.join(ROOT, 'seeded', 'R4-*'))) + sorted(glob.glob(os.path.join(ROOT, 'seeded', 'R5-*'))) + sorted(glob.glob(os.path.join(ROOT, 'seeded', 'R6-*'))) + sorted(glob.glob(os.path.join(ROOT, 'seeded', 'R7-*'))) + sorted(glob.glob(os.path.join(ROOT, 'seeded', 'R8-*'))) + sorted(glob.glob(os.path.join(ROOT, 'seeded', 'R9-*'))):
    sid = os.path.basename(d)
    try:
        meta = json.load(open(os.path.join(d, 'meta.json')))
    except Exception:
        meta = {}
    conf = open(os.path.join(d, 'confirm.txt')).read() if os.path.exists(os.path.join(d, 'confirm.txt')) else ''
    ok = all(x in conf for x in ('demo with patch: exit 1', 'existing suite with patch: exit 0', 'demo without patch: exit 0'))
    checks = []
    lines = conf.splitlines()
    for i, l in enumerate(lines):
        m = re.match(r'check (C\d+): exit (\d+)(.*)', l)
        if m:
            sig = ''
            for l2 in lines[i + 1:i + 4]:
                m2 = re.match(r'\s+signature: (.*)', l2)
                if m2:
                    sig = m2.group(1)
            nf = 'no-failing-input-found' in m.group(3)
            res = 'passes (not caught)' if m.group(2) == '0' else ('VIOLATION, no failing input' if nf else 'VIOLATION `%s`' % sig)
            checks.append('%s → %s' % (m.group(1), res))
    def cell(x):
        return str(x).replace('|', '\\|').replace('\n', ' ')
    print('| `seeded/%s` (%s) | %s | %s | %s | %s | %s |' % (sid, meta.get('property', sid[-3:]), cell(meta.get('summary', ''))[:400], cell(meta.get('needs', ''))[:400],
                                                      'suite passes, demo fails with / passes without' if ok else 'see confirm.txt', '; '.join(checks), HISTORY.get(sid, 'caught at the first trial')))
