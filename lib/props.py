"""Registry used by ./check: per property the theorem file, the correspondence suites, how model and
implementation observations are compared (COMPARE) and which cases count as non-trivial."""
import re

SUITE_TIMEOUT = {}
MODEL_SUITE = {}          # harness suite name -> model runner suite name (when they differ)

# ---------------------------------------------------------------- comparers
# each returns a list of (kind, signature, message); kind 'violation' = the property's own checker
# fails on what the implementation did (a concrete failing input); kind 'disagree' = model and
# implementation differ although the judge has no complaint (correspondence broken).

def cmp_mask(prop, case, impl, model):
    out = []
    if 'PANIC' in impl:
        return [('violation', 'mask:panic', 'implementation panicked: ' + impl['PANIC'])]
    # judge: the property's definition (mask_spec, rotated key) evaluated by the model, applied to the implementation's result
    if impl.get('out') != model.get('spec'):
        out.append(('violation', 'mask:%s:bytes' % case.get('fn'), 'masked bytes differ from the XOR definition'))
    if impl.get('key') != model.get('key'):
        out.append(('violation', 'mask:%s:key' % case.get('fn'), 'returned key is not the key rotated by the length'))
    if impl.get('guard') != 'ok':
        out.append(('violation', 'mask:%s:guard' % case.get('fn'), 'memory outside the buffer was modified: ' + str(impl.get('guard'))))
    if not out and impl.get('out') != model.get('out'):
        out.append(('disagree', 'mask:model-out', 'mechanistic model output differs from implementation'))
    return out

def cmp_wireout(prop, case, impl, model):
    out = []
    if 'PANIC' in impl:
        return [('violation', 'wire-out:panic', 'implementation panicked: ' + impl['PANIC'][:200])]
    if 'hang' in impl:
        return [('violation', 'wire-out:hang', 'scenario did not terminate: ' + impl['hang'])]
    if 'dialerr' in impl:
        return [('disagree', 'wire-out:handshake', 'could not establish the scripted connection: ' + impl['dialerr'])]
    if 'modelerror' in model:
        return [('disagree', 'wire-out:modelerror', model['modelerror'][:300])]
    j = model.get('judge', '?')
    if j != 'ok':
        out.append(('violation', 'wire-out:' + j.replace('violation:', ''), 'reference decoder on the bytes the library wrote: ' + j))
    if prop == 'C01' and impl.get('bufs') != 'ok':
        out.append(('violation', 'wire-out:caller-buffer-modified', 'a buffer passed to a write call was modified'))
    if impl.get('errs') != model.get('errs'):
        # a refused Close must error and an accepted call must succeed (C06); for other properties this is a correspondence difference
        out.append(('violation' if prop == 'C06' else 'disagree', 'wire-out:call-results', 'call results %s, model %s' % (impl.get('errs'), model.get('errs'))))
    if not out and impl.get('wirefnv') != model.get('wirefnv'):
        out.append(('disagree', 'wire-out:wire-bytes', 'model wire (%s bytes) differs from implementation wire (%s bytes)' % (model.get('n'), impl.get('n'))))
    return out

COMPARE = {
    'mask': cmp_mask,
    'wire-out': cmp_wireout,
}

def nontrivial(suite, case, impl):
    if suite == 'mask':
        d = case.get('data', '-')
        m = re.match(r'gen:\w+:(\d+):', d)
        n = int(m.group(1)) if m else (0 if d == '-' else len(d) // 2)
        return n >= 4
    if suite == 'wire-out':
        return int(impl.get('n', '0') or 0) > 200 or '|' in case.get('prog', '')
    return True

FLATE_ASSUME = 'compress/flate is an oracle (Section variables dz / inflate), instantiated in the runner by Go\'s compress/flate run by the harness on its own objects; theorems about compressed messages hold for EVERY compressor behaviour unless they name the flate contract'

COMMON_TRUSTED = [
    'extraction: Require Extraction + ExtrOcamlBasic only (bool/option/unit/list/prod/sumbool/sumor mapped to OCaml; N, Z, positive, nat stay inductive); no Extract Constant',
    'hand-written OCaml driver /verif/ocaml (hex, PRNG, digests) and Go harness /verif/harness; python orchestrator /verif/check',
    'translator /verif/tools/constx (Go constants and validWireCloseCode -> coq/Gen/*.v)',
]

PROPS = {
    'C02': dict(
        suites=['wire-out'],
        rule='wire-out suite: seeded programs of Write / Writer(chunks) / Ping / Close on a library endpoint (both roles x {no compression, 4 (cnct,snct) '
             'combinations incl. asymmetric} x thresholds {default,1,64,1000}); sizes from the framing/bufio/window boundary set; the raw peer records every byte. '
             'non-trivial = more than one op or > 200 wire bytes; distinct = distinct case line',
        trusted=COMMON_TRUSTED + [FLATE_ASSUME, 'mask keys are crypto/rand input to the model (read off the wire); "keys differ between frames" is a test in the judge, not a theorem'],
        assumptions=[FLATE_ASSUME, 'bufio.Writer is transparent for the byte sequence (every operation ends with a flushed final frame)'],
        level_text='Theorem C02_wf: for every program, role, option set, threshold, key supply and every compressor behaviour the Writer model\'s wire bytes parse back '
                   '(specification parser) to exactly the frames written and satisfy every conformance clause of the property. Tie: the library\'s recorded bytes equal the '
                   'model\'s bytes case by case, and the extracted specification decoder (+ inflate) is applied to the library\'s bytes as judge.',
        level_note='Writer model hand-written from write.go/compress.go/frame.go; compressor is an oracle; message reassembly/inflation equality is checked by the judge on every case (theorem C02_decodes pending).',
        technique='Coq proof (invariant over operation sequences; decode∘encode) + differential run of the extracted model vs the library through Dial/Accept with a scripted raw peer',
    ),
    'C17': dict(
        suites=['mask'],
        rule='mask suite: every (fn in {maskGo, maskAsm}) x length x start alignment (64-byte aligned arena, 64 guard bytes each side) '
             'x key with four distinct bytes, plus all 2-piece and sampled 3-piece splits; non-trivial = buffer length >= 4; distinct = distinct case line',
        trusted=COMMON_TRUSTED + ['mask_amd64.s is tied by the correspondence suite only (the proved theorem about the assembly is about the Gallina rendering in Model/MaskAsm.v, when present)'],
        assumptions=['mask_arm64.s cannot be executed on this amd64 host: not covered',
                     'the Go compiler and encoding/binary implement LittleEndian.Uint64/PutUint64 as modelled by pack/unpack'],
        not_covered=['mask_arm64.s'],
        level_text='Theorems for every key, length and content: the Gallina rendering of maskGo equals the XOR definition and returns the rotated key; '
                   'composition over any split; involution.  Tied to mask.go / mask_amd64.s by running the extracted model and the real functions on the '
                   'same buffers (all alignments, guard bytes).',
        level_note='Model of mask.go is hand-written Gallina (Model/Mask.v); tie = correspondence suite through verif_export.go. mask_arm64.s not covered. No axioms.',
        technique='Coq proof (induction over block structure; word XOR reduced to byte XOR) + differential run of extracted model vs maskGo/maskAsm',
    ),
}
