"""Registry used by ./check: per property the theorem file, the correspondence suites, how model and
implementation observations are compared (COMPARE) and which cases count as non-trivial."""
import re

SUITE_TIMEOUT = {}
MODEL_SUITE = {}          # harness suite name -> model runner suite name (when they differ)

# ---------------------------------------------------------------- comparers
# each returns a list of (kind, signature, message); kind 'violation' = the property's own checker
# fails on what the implementation did (a concrete failing input); kind 'disagree' = model and
# implementation differ although the judge has no complaint (correspondence broken).

def cmp_mask(prop, case, impl, model):
    out = []
    if 'PANIC' in impl:
        return [('violation', 'mask:panic', 'implementation panicked: ' + impl['PANIC'])]
    # judge: the property's definition (mask_spec, rotated key) evaluated by the model, applied to the implementation's result
    if impl.get('out') != model.get('spec'):
        out.append(('violation', 'mask:%s:bytes' % case.get('fn'), 'masked bytes differ from the XOR definition'))
    if impl.get('key') != model.get('key'):
        out.append(('violation', 'mask:%s:key' % case.get('fn'), 'returned key is not the key rotated by the length'))
    if impl.get('guard') != 'ok':
        out.append(('violation', 'mask:%s:guard' % case.get('fn'), 'memory outside the buffer was modified: ' + str(impl.get('guard'))))
    if not out and impl.get('out') != model.get('out'):
        out.append(('disagree', 'mask:model-out', 'mechanistic model output differs from implementation'))
    return out

def cmp_wireout(prop, case, impl, model):
    out = []
    if 'PANIC' in impl:
        return [('violation', 'wire-out:panic', 'implementation panicked: ' + impl['PANIC'][:200])]
    if 'hang' in impl:
        return [('violation', 'wire-out:hang', 'scenario did not terminate: ' + impl['hang'])]
    if 'dialerr' in impl:
        return [('disagree', 'wire-out:handshake', 'could not establish the scripted connection: ' + impl['dialerr'])]
    if 'modelerror' in model:
        return [('disagree', 'wire-out:modelerror', model['modelerror'][:300])]
    j = model.get('judge', '?')
    if j != 'ok':
        out.append(('violation', 'wire-out:' + j.replace('violation:', ''), 'reference decoder on the bytes the library wrote: ' + j))
    if prop == 'C01' and impl.get('bufs') != 'ok':
        out.append(('violation', 'wire-out:caller-buffer-modified', 'a buffer passed to a write call was modified'))
    if impl.get('errs') != model.get('errs'):
        # a refused Close must error and an accepted call must succeed (C06); for other properties this is a correspondence difference
        out.append(('violation' if prop == 'C06' else 'disagree', 'wire-out:call-results', 'call results %s, model %s' % (impl.get('errs'), model.get('errs'))))
    if not out and impl.get('wirefnv') != model.get('wirefnv'):
        out.append(('disagree', 'wire-out:wire-bytes', 'model wire (%s bytes) differs from implementation wire (%s bytes)' % (model.get('n'), impl.get('n'))))
    return out

def _norm_err(e):
    # after an error the library's timeout goroutine may close the connection concurrently: a transport
    # error and net.ErrClosed are the same observable class
    return 'connerr' if e in ('transporteof', 'transportfail', 'closed') else e

def _parse_obs(o):
    out = []
    for x in (o or '').split(','):
        if not x:
            continue
        f = x.split(':')
        if f[0] == 'R':
            out.append(('R', f[1] if not f[1].startswith('err=') else 'err', _norm_err(x[2:][4:]) if f[1].startswith('err=') else None))
        elif f[0] == 'M':
            st = ':'.join(f[3:])
            out.append(('M', (f[1], f[2]), 'eof' if st == 'eof' else _norm_err(st[4:])))
        else:
            out.append(('?', x, None))
    return out

def _reply_eq(i, m):
    if m.startswith('8:code='):
        code = int(m[7:])
        return i.startswith('8:') and i[2:6] == '%04x' % code
    return i == m

def _close_vs_closed(ie, me, model):
    """A peer's Close frame in the middle of a compressed message ends the read either with the CloseError itself or -- when the
    inflater still had output to hand over at that moment, so that the error surfaces one Read later, after Conn.close() --
    with net.ErrClosed.  Which of the two depends on flate's internal buffering; the model (which pulls eagerly) picks one."""
    pair = {ie.split(':')[0], me.split(':')[0]}
    return pair == {'connerr', 'close'} and any(x.startswith('8:') for x in (model.get('replies') or '').split(','))

def cmp_wirein(prop, case, impl, model):
    if 'PANIC' in impl:
        return [('violation', 'wire-in:panic', 'the library panicked: ' + impl['PANIC'][:300])]
    if 'hang' in impl:
        return [('violation', 'wire-in:hang', 'read script did not terminate: ' + impl['hang'])]
    if 'dialerr' in impl:
        return [('disagree', 'wire-in:handshake', 'could not establish the scripted connection: ' + impl['dialerr'])]
    if 'modelerror' in model:
        return [('disagree', 'wire-in:modelerror', model['modelerror'][:300])]
    out = []
    io_, mo = _parse_obs(impl.get('obs')), _parse_obs(model.get('obs'))
    n = min(len(io_), len(mo))
    for k in range(n):
        a, b = io_[k], mo[k]
        if a == b:
            continue
        if a[0] == 'M' and b[0] == 'M':
            if a[2] == 'eof' and b[2] != 'eof':
                kind = 'limit' if b[2] == 'limit' else 'truncated'
                out.append(('violation', 'wire-in:clean-end-of-%s-message' % kind, 'message %d: the library reported a clean end, the reference says %s' % (k, b[2])))
            elif a[2] == 'eof' and b[2] == 'eof':
                out.append(('violation', 'wire-in:payload-differs', 'message %d delivered %s bytes fnv %s, reference %s bytes fnv %s' % (k, a[1][0], a[1][1], b[1][0], b[1][1])))
            elif a[2] != 'eof' and b[2] == 'eof':
                out.append(('violation', 'wire-in:valid-message-failed', 'message %d failed with %s, the reference delivers it' % (k, a[2])))
            elif a[1] != b[1]:
                # a failing message: what was handed to the caller must be a prefix of what the reference hands out
                # (itself a prefix of the payload); the amount may differ when the connection is torn down concurrently
                fi, fm = impl.get('faildata', '?'), model.get('faildata', '?')
                fi = '' if fi == '-' else fi
                fm = '' if fm == '-' else fm
                if fi == '?' or fm == '?' or not fm.startswith(fi):
                    out.append(('violation', 'wire-in:partial-data-not-a-prefix', 'failing message %d handed out %s bytes fnv %s, reference %s bytes fnv %s' % (k, a[1][0], a[1][1], b[1][0], b[1][1])))
                elif a[2] != b[2] and not _close_vs_closed(a[2], b[2], model):
                    out.append(('disagree', 'wire-in:error-class', 'message %d failed with %s, model %s' % (k, a[2], b[2])))
            elif not _close_vs_closed(a[2], b[2], model):
                out.append(('disagree', 'wire-in:error-class', 'message %d failed with %s, model %s' % (k, a[2], b[2])))
        elif a[0] == 'R' and b[0] == 'R':
            if a[1] != 'err' and b[1] == 'err':
                out.append(('violation', 'wire-in:violation-accepted', 'Reader call %d returned a message, the reference rejects the frame (%s)' % (k, b[2])))
            elif a[1] == 'err' and b[1] != 'err':
                out.append(('violation', 'wire-in:valid-message-failed', 'Reader call %d failed with %s, the reference delivers a message' % (k, a[2])))
            elif a[1] != b[1]:
                out.append(('violation', 'wire-in:message-type', 'Reader call %d returned type %s, reference %s' % (k, a[1], b[1])))
            else:
                out.append(('disagree', 'wire-in:error-class', 'Reader call %d failed with %s, model %s' % (k, a[2], b[2])))
        else:
            out.append(('disagree', 'wire-in:shape', 'observation %d differs in kind' % k))
        break
    if not out and len(io_) != len(mo):
        out.append(('disagree', 'wire-in:length', 'implementation made %d observations, model %d' % (len(io_), len(mo))))
    ir = [x for x in (impl.get('replies') or '-').split(',') if x != '-']
    mr = [x for x in (model.get('replies') or '-').split(',') if x != '-']
    if not out:
        if len(ir) != len(mr) or not all(_reply_eq(a, b) for a, b in zip(ir, mr)):
            pi = [x for x in ir if x.startswith('10:')]
            pm = [x for x in mr if x.startswith('10:')]
            last = mo[-1] if mo else None
            lazy_ok = last is not None and last[0] == 'M' and last[2] in ('limit', 'other') and pm[:len(pi)] == pi
            ci = [x for x in ir if x.startswith('8:')]
            cm = [x for x in mr if x.startswith('8:')]
            readahead = last is not None and last[0] == 'M' and last[2] == 'other' and model.get('zcorrupt') == '1' and len(ir) < len(mr) and all(_reply_eq(a, b) for a, b in zip(ir, mr))
            teardown = (model.get('hitend') == '1' and last is not None and last[0] == 'M' and last[2] == 'limit' and len(ir) == len(mr) - 1
                        and mr[-1].startswith('8:') and all(_reply_eq(a, b) for a, b in zip(ir, mr)))
            is1009 = lambda x: x.startswith('8:03f1')
            limit_early = (last is not None and last[0] == 'M' and last[2] == 'limit' and len(ir) >= 1 and is1009(ir[-1])
                           and not any(x.startswith('8:') for x in ir[:-1]) and len(ir) - 1 <= len(mr)
                           and all(_reply_eq(a, b) for a, b in zip(ir[:-1], mr)))
            if limit_early:
                # the library hits the limit as soon as limit+1 bytes are inflated and answers with Close 1009; the model inflates
                # after pulling the WHOLE message, so it has also processed what lies behind that point (answered further Pings, met
                # a protocol violation and sent Close 1002 instead): the library's replies are a prefix of the model's Pongs + 1009
                pass
            elif teardown:
                # the transport ended under the reader (inside a control frame, say): the context of that failed section stays armed
                # and is cancelled, so the library's timeout goroutine closes the connection concurrently; a Close frame the reader
                # wants to write afterwards (limit hit on what was already inflated) may or may not get out before that close
                pass
            elif readahead:
                # the inflater met corrupt data: the library stops there; the model, which pulls the whole message first, also
                # processed the frames behind the corrupt point (a Pong, or a Close frame for a bad header): replies are a prefix
                pass
            elif lazy_ok and len(ci) == len(cm) and all(_reply_eq(a, b) for a, b in zip(ci, cm)):
                # the model pulls a compressed message eagerly; the library stops pulling at the limit / corrupt data:
                # the Pongs it wrote are a prefix of the model's (same order, same payloads)
                pass
            elif pi != pm:
                out.append(('violation', 'wire-in:pongs-differ', 'pongs written %s, reference %s' % (','.join(pi)[:200], ','.join(pm)[:200])))
            else:
                out.append(('violation', 'wire-in:close-reply-differs', 'close frames written %s, reference %s' % ([x[:40] for x in ir if x.startswith('8:')], [x[:40] for x in mr if x.startswith('8:')])))
    return out

def cmp_close(prop, case, impl, model):
    if 'PANIC' in impl:
        return [('violation', 'close:panic', 'the library panicked: ' + impl['PANIC'][:300])]
    if 'hang' in impl:
        return [('violation', 'close:hang', impl['hang'])]
    if 'dialerr' in impl or 'modelerror' in model:
        return [('disagree', 'close:setup', str(impl.get('dialerr')) + ' ' + str(model.get('modelerror'))[:200])]
    out = []
    steps = [x for x in case.get('steps', '').split('|') if not x.startswith('pmsg')]   # pmsg records no result unless it failed
    ir, mr = impl.get('res', '').split(','), model.get('res', '').split(',')
    ic, mc = impl.get('closes', ''), model.get('closes', '')
    # error closes (1002 after a malformed peer Close) carry a reason text the model does not predict: compare the code
    def norm_closes(x):
        return [c[:4] if len(c) > 4 and c[:4] == '03ea' else c for c in x.split(',')]
    if prop == 'C16' or True:
        if impl.get('dataafterclose', '0') != '0':
            out.append(('violation', 'close:data-after-close', 'a data frame followed the Close frame'))
        if len([c for c in ic.split(',') if c != 'none']) > 1:
            out.append(('violation', 'close:second-close-frame', 'more than one Close frame was written: ' + ic[:200]))
    if norm_closes(ic) != norm_closes(mc) and not out:
        out.append(('violation', 'close:frames', 'Close frames written %s, expected %s' % (ic[:200], mc[:200])))
    for k, (a, b) in enumerate(zip(ir, mr)):
        if a != b:
            out.append(('violation', 'close:result:%s' % steps[min(k, len(steps) - 1)].split("~")[0], "step %d (%s) returned %s, expected %s" % (k, steps[min(k, len(steps) - 1)][:40], a, b)))
            break
    if impl.get('status') != model.get('status') and 'peerclose' in case.get('steps', ''):
        out.append(('violation', 'close:status', 'CloseStatus %s, expected %s' % (impl.get('status'), model.get('status'))))
    return out

def cmp_pair(prop, case, impl, model):
    if 'PANIC' in impl:
        return [('violation', 'pair:panic', 'the library panicked: ' + impl['PANIC'][:300])]
    if 'dialerr' in impl or 'modelerror' in model:
        return [('disagree', 'pair:setup', str(impl.get('dialerr')) + ' ' + str(model.get('modelerror'))[:300])]
    out = []
    if impl.get('errs') != 'nil,nil,nil,nil':
        out.append(('violation', 'pair:call-failed', 'a write or read call failed: ' + str(impl.get('errs'))))
    # the judge: the property itself — what was received is exactly what was written, per direction, in order
    for d, e in (('c2s', 'expc2s'), ('s2c', 'exps2c')):
        if impl.get(d) != model.get(e) and not out:
            out.append(('violation', 'pair:messages-differ:' + d, 'received %s..., written %s...' % (str(impl.get(d))[:150], str(model.get(e))[:150])))
    if impl.get('bufs') != 'ok':
        out.append(('violation', 'pair:caller-buffer-modified', 'a buffer passed to a write call was modified'))
    if not out:
        for d in ('c2s', 's2c'):
            if impl.get(d) != model.get(d):
                out.append(('disagree', 'pair:model-delivery:' + d, 'model delivers %s...' % str(model.get(d))[:200]))
        for d in ('wc2s', 'ws2c'):
            if impl.get(d) != model.get(d):
                out.append(('disagree', 'pair:wire-bytes:' + d, 'model wire differs from the tapped wire'))
    return out

def _cmp_fields(suite, fields, sigmap):
    def f(prop, case, impl, model):
        if 'PANIC' in impl:
            return [('violation', suite + ':panic', 'the library panicked: ' + impl['PANIC'][:300])]
        if 'modelerror' in model:
            return [('disagree', suite + ':modelerror', model['modelerror'][:300])]
        out = []
        for fld in fields:
            if impl.get(fld) != model.get(fld):
                out.append(('violation', '%s:%s' % (suite, sigmap.get(fld, fld)), '%s: library %s, specification %s' % (fld, str(impl.get(fld))[:160], str(model.get(fld))[:160])))
                break
        return out
    return f

cmp_hs_accept = _cmp_fields('hs-accept', ['status', 'hijacked', 'accept', 'proto', 'connproto', 'ext', 'co'], {})
def cmp_hs_dial(prop, case, impl, model):
    if impl.get('ok') == '2':
        return [('violation', 'hs-dial:conn-with-error', 'Dial returned an error AND a connection')]
    if impl.get('keyok') == '3':
        return [('violation', 'hs-dial:key-reused', 'two Dial attempts sent the same Sec-WebSocket-Key: the nonce is not fresh')]
    if impl.get('keyok') != '1':
        return [('violation', 'hs-dial:key', 'the Sec-WebSocket-Key sent is not one base64 value of 16 bytes')]
    if impl.get('hdrkept', '1') != '1':
        return [('violation', 'hs-dial:caller-headers-modified', 'Dial modified the header map the caller passed in DialOptions.HTTPHeader')]
    return _cmp_fields('hs-dial', ['ok', 'subproto', 'co', 'method', 'host', 'req'], {})(prop, case, impl, model)

def cmp_sched(prop, case, impl, model):
    if 'PANIC' in impl:
        return [('violation', 'sched:panic', 'the library panicked: ' + impl['PANIC'][:300])]
    if 'hang' in impl:
        return [('violation', 'sched:hang', 'concurrent program did not terminate: ' + impl['hang'])]
    if 'dialerr' in impl or 'modelerror' in model:
        return [('disagree', 'sched:setup', str(impl.get('dialerr')) + ' ' + str(model.get('modelerror'))[:300])]
    out = []
    j = model.get('judge', '?')
    if j != 'ok' and prop in ('C05', 'C16', 'C02'):
        out.append(('violation', 'sched:' + j.replace('violation:', ''), 'reference decoder on the bytes written under concurrency: ' + j))
    g = model.get('goroutines', '?')
    if g != 'ok' and prop in ('C20', 'C05'):
        out.append(('violation', 'sched:goroutine-' + g.split(':')[0], 'library goroutines after CloseNow returned: ' + g))
    if not out:
        if model.get('replay') != 'ok':
            out.append(('disagree', 'sched:replay:' + re.sub(r't\d+', 't', model.get('replay', '?')), 'the observed schedule is not an execution of the interleaving model: ' + model.get('replay', '?')))
        elif model.get('modelprops') != 'true,true,true':
            out.append(('disagree', 'sched:modelprops', 'the replayed model run violates its own proved invariants?! ' + model.get('modelprops', '?')))
    return out

def cmp_netconn(prop, case, impl, model):
    if 'PANIC' in impl:
        return [('violation', 'netconn:panic', impl['PANIC'][:300])]
    if 'dialerr' in impl or 'modelerror' in model:
        return [('disagree', 'netconn:setup', str(impl.get('dialerr')) + ' ' + str(model.get('modelerror'))[:300])]
    out = []
    k = case.get('kind')
    if k == 'stream':
        if impl.get('werr') != 'true':
            out.append(('violation', 'netconn:write-failed', 'a Write on the adapter failed'))
        if (impl.get('n'), impl.get('fnv')) != (impl.get('wn'), impl.get('wfnv')):
            out.append(('violation', 'netconn:stream-differs', 'bytes read (%s) are not the bytes written (%s)' % (impl.get('n'), impl.get('wn'))))
        if impl.get('end') != 'eof':
            out.append(('violation', 'netconn:end', 'the stream ended with %s instead of io.EOF' % impl.get('end')))
        if impl.get('zeroreads') != '0':
            out.append(('violation', 'netconn:zero-read', 'a Read returned 0 bytes without error'))
        if not out and (impl.get('end'), impl.get('n'), impl.get('fnv')) != (model.get('end'), model.get('n'), model.get('fnv')):
            out.append(('disagree', 'netconn:model-stream', 'model stream differs'))
    else:
        for f in [x for x in model if x not in ('id', '_line')]:
            if f == 'third' and model.get('second', '').startswith('close:'):
                continue   # after a non-normal close the connection is closed: any error
            if impl.get(f) != model.get(f):
                out.append(('violation', 'netconn:%s:%s' % (k, f), '%s: library %s, specification %s' % (f, impl.get(f), model.get(f))))
                break
    if impl.get('ghost', '0:0') != '0:0':
        g = impl['ghost'].split(':')
        out.append(('violation', 'netconn:bytes-with-error', 'failing calls of the adapter reported %s bytes read and %s bytes written although nothing was transferred by them' % (g[0], g[1])))
    return out

def cmp_wsjson(prop, case, impl, model):
    if 'PANIC' in impl:
        return [('violation', 'wsjson:panic', impl['PANIC'][:300])]
    for bad in ('dialerr', 'readerr', 'writeerr'):
        if bad in impl:
            return [('violation', 'wsjson:' + bad, 'call failed: ' + impl[bad])]
    out = []
    for f in [x for x in model if x not in ('id', '_line')]:
        if impl.get(f) != model.get(f):
            out.append(('violation', 'wsjson:%s:%s' % (case.get('kind'), f), '%s: library %s, specification %s' % (f, impl.get(f), model.get(f))))
            break
    return out

def cmp_life(prop, case, impl, model):
    if 'PANIC' in impl:
        return [('violation', 'life:panic', impl['PANIC'][:300])]
    if 'hang' in impl:
        return [('violation', 'life:hang:' + case.get('scen', '?'), impl['hang'])]
    if 'dialerr' in impl or 'modelerror' in model:
        return [('disagree', 'life:setup', str(impl.get('dialerr')) + ' ' + str(model.get('modelerror'))[:300])]
    out = []
    scen = case.get('scen', '?')
    ir = impl.get('res', '')
    if 'blocked' in ir:
        out.append(('violation', 'life:call-stayed-blocked:' + scen, 'a call did not return although the connection was closed: ' + ir))
    if 'closenow-slow' in ir:
        out.append(('violation', 'life:closenow-slow:' + scen, 'CloseNow did not return promptly: ' + ir))
    # bounded time (C09): measured duration against the model's bound (constants regenerated from the source) + slack
    try:
        dur, bound = int(impl.get('durms', '0')), int(model.get('boundms', '0'))
        if dur > bound + 1500 and prop in ('C09', 'C10'):
            out.append(('violation', 'life:too-slow:' + scen, 'the call took %d ms, bound %d ms (+1500 ms slack)' % (dur, bound)))
        if impl.get('bound') == '5s' and dur < 3000 and False:
            pass
    except ValueError:
        pass
    if prop in ('C10', 'C09'):
        mr = model.get('res', 'any')
        irn = ','.join(x for x in ir.split(',') if not x.startswith('closenow-slow'))
        # a Write whose context was ALREADY cancelled when it was called never blocks on this transport: the library may fail it (and
        # close), or complete it before its timeout goroutine looks at the context — then the write succeeded and the property
        # asks nothing more of that context (both outcomes are executions of the library on the unchanged tree)
        raced = scen == 'cancel-before-write' and irn == 'ok'
        if mr != 'any' and irn != mr and not out and not raced:
            out.append(('violation', 'life:results:' + scen, 'call results %s, specification %s' % (ir, mr)))
        mc, ic = model.get('closed', 'any'), impl.get('closed', '-')
        if mc != 'any' and ic not in ('-', 'any') and ic != mc and not out and not raced:
            out.append(('violation', 'life:connection-state:' + scen, 'connection closed afterwards: %s, specification %s' % (ic, mc)))
        if impl.get('arm') != 'ok':
            out.append(('violation', 'life:arming:' + scen, 'hook trace: ' + str(impl.get('arm'))))
    if prop in ('C20', 'C09'):
        if impl.get('goroutines') != 'ok':
            out.append(('violation', 'life:goroutine-leak:' + scen, 'after CloseNow returned: ' + str(impl.get('goroutines'))))
        if impl.get('crdone') == '0':
            out.append(('violation', 'life:closeread-context:' + scen, 'the context returned by CloseRead was not cancelled'))
        if model.get('goroutines', 'ok') != 'ok':
            out.append(('disagree', 'life:model-goroutines:' + scen, model.get('goroutines')))
    return out

def cmp_ping(prop, case, impl, model):
    if 'PANIC' in impl:
        return [('violation', 'ping:panic', impl['PANIC'][:300])]
    if 'dialerr' in impl or 'modelerror' in model:
        return [('disagree', 'ping:setup', str(impl.get('dialerr')) + ' ' + str(model.get('modelerror'))[:300])]
    out = []
    script = case.get('script', '').split('/')
    if model.get('distinct') != 'true':
        out.append(('violation', 'ping:payloads-not-distinct', 'two Ping calls used the same payload: ' + str(impl.get('pings'))))
    if int(model.get('npings', '0')) != len(script):
        out.append(('disagree', 'ping:frames', 'the peer saw %s Ping frames for %d calls' % (model.get('npings'), len(script))))
    ir, mr = impl.get('res', ''), model.get('res', '')
    if ir != mr and not out:
        if case.get('mode') == 'seq':
            for k, (a, b) in enumerate(zip(ir.split(','), mr.split(','))):
                if a == '1' and b == '0':
                    out.append(('violation', 'ping:nil-without-own-pong', 'Ping call %d returned nil although no Pong carrying its payload was sent (reaction %r)' % (k, script[k] if k < len(script) else '?')))
                    break
                if a == '0' and b == '1':
                    out.append(('violation', 'ping:own-pong-not-recognised', 'Ping call %d failed although a Pong with its payload was sent (reaction %r)' % (k, script[k] if k < len(script) else '?')))
                    break
        else:
            ni, nm = int(ir[2:] or 0), int(mr[2:] or 0)
            if ni > nm:
                out.append(('violation', 'ping:nil-without-own-pong', '%d concurrent Ping calls returned nil, only %d were sent a Pong with their payload' % (ni, nm)))
            else:
                out.append(('violation', 'ping:own-pong-not-recognised', '%d concurrent Ping calls returned nil, %d were sent a Pong with their payload' % (ni, nm)))
    if impl.get('later') != '1' and not out:
        out.append(('violation', 'ping:connection-unusable-afterwards', 'a final Ping with an exact Pong failed'))
    return out

def cmp_pools(prop, case, impl, model):
    if 'PANIC' in impl:
        return [('violation', 'pools:panic', impl['PANIC'][:300])]
    if 'dialerr' in impl or 'modelerror' in model:
        return [('disagree', 'pools:setup', str(impl.get('dialerr')) + ' ' + str(model.get('modelerror'))[:300])]
    out = []
    for k, o in enumerate((impl.get('obs') or '-').split(',')):
        f = o.split(':')
        if len(f) == 4 and f[2] == 'false':
            out.append(('violation', 'pools:foreign-bytes', 'read %d on connection %s returned %s bytes that are not bytes of that connection' % (k, f[0], f[1])))
            break
        if len(f) == 4 and f[1] == 'probe' and f[2] != '0':
            out.append(('violation', 'pools:foreign-bytes-probe', 'the first compressed message of connection %s, a back-reference to before its own start, was inflated to %s bytes: none of them was sent on that connection' % (f[0], f[2])))
            break
        if len(f) == 3 and f[1] == 'write-misrouted':
            out.append(('violation', 'pools:write-misrouted', 'a message written on connection %s went to the transport of connection %s (or to none)' % (f[0], f[2])))
            break
        if len(f) == 3 and f[1] == 'unexpected-error':
            out.append(('disagree', 'pools:healthy-connection-failed', '%s on connection %s failed although nothing was wrong on that connection' % (f[2], f[0])))
            break
    if model.get('replay') != 'ok':
        r = model.get('replay', '?')
        kind = 'violation' if ('not-held' in r or 'somebody-holds' in r or 'non-holder' in r) else 'disagree'
        out.append((kind, 'pools:' + re.sub(r'\d+', 'N', r), 'pool trace replayed in the ownership model: ' + r))
    return out

def cmp_window(prop, case, impl, model):
    if 'PANIC' in impl:
        return [('violation', 'window:panic', impl['PANIC'][:300])]
    if 'modelerror' in model:
        return [('disagree', 'window:setup', str(model.get('modelerror'))[:300])]
    io, mo = (impl.get('obs') or '').split(','), (model.get('obs') or '').split(',')
    ops = case.get('hist', '').split('|')
    for k in range(max(len(io), len(mo))):
        a = io[k] if k < len(io) else '-'
        b = mo[k] if k < len(mo) else '-'
        fa, fb = a.split(':'), b.split(':')
        if a == b or (len(fa) == 5 and len(fb) == 4 and fa[:3] == fb[:3] and (fa[4] == 'd' or fa[3] == fb[3])):   # flags: z new array, k known contents, d unknown contents
            continue   # an array that came out of the pool with unknown contents of an earlier case (d): only what it shows is compared
        op = ops[k] if k < len(ops) else '?'
        if len(fa) == 5 and len(fb) == 4 and fa[1:3] != fb[1:3]:
            return [('violation', 'window:dictionary-differs', 'after op %d (%s) the dictionary the connection would hand to its inflater has %s bytes (digest %s); its own last bytes are %s (digest %s)' % (k, op, fa[1], fa[2], fb[1], fb[2]))]
        return [('disagree', 'window:array-differs', 'after op %d (%s): library %s, model %s' % (k, op, a, b))]
    return []

def cmp_hs_pair(prop, case, impl, model):
    if 'PANIC' in impl:
        return [('violation', 'hs-pair:panic', impl['PANIC'][:300])]
    if 'modelerror' in model:
        return [('disagree', 'hs-pair:setup', str(model.get('modelerror'))[:300])]
    for f in ('ok', 'accepted', 'csub', 'ssub', 'cco', 'sco'):
        if impl.get(f) != model.get(f):
            kind = 'violation'
            what = {'ok': 'the library client and the library server did not complete the handshake as specified',
                    'accepted': 'the server side of the handshake differs',
                    'csub': 'the subprotocol the client reports differs', 'ssub': 'the subprotocol the server reports differs',
                    'cco': 'the compression parameters the client holds differ', 'sco': 'the compression parameters the server holds differ'}[f]
            if f in ('cco', 'sco') and prop != 'C14':
                kind = 'disagree'
            return [(kind, 'hs-pair:' + f, '%s: library %s, specification %s' % (what, impl.get(f), model.get(f)))]
    if impl.get('ok') == '1' and impl.get('cco') != impl.get('sco'):
        return [('violation', 'hs-pair:ends-disagree', 'client holds %s, server holds %s' % (impl.get('cco'), impl.get('sco')))]
    return []

def cmp_trim(prop, case, impl, model):
    if 'PANIC' in impl:
        return [('violation', 'trim:panic', impl['PANIC'][:300])]
    if 'modelerror' in model:
        return [('disagree', 'trim:setup', str(model.get('modelerror'))[:300])]
    io, mo = (impl.get('obs') or '').split(','), (model.get('obs') or '').split(',')
    for k in range(max(len(io), len(mo))):
        a = io[k] if k < len(io) else '-'
        b = mo[k] if k < len(mo) else '-'
        if a == b:
            continue
        fa, fb = a.split('/'), b.split('/')
        if len(fa) == 3 and len(fb) == 3:
            cat = lambda f: f[0].replace('+', '').replace('-', '') + f[1].replace('-', '')
            if cat(fa) != cat(fb):
                return [('violation', 'trim:bytes-differ', 'after chunk %d the bytes handed downstream plus the withheld tail are %s / %s, the reference says %s / %s: a byte of the compressed message is lost, duplicated or moved' % (k, fa[0][:80], fa[1], fb[0][:80], fb[1]))]
            if fa[1] != fb[1]:
                return [('violation', 'trim:tail-differs', 'after chunk %d the withheld tail is %s, the reference says %s: the tail is what is dropped at the end of the message, it must be exactly the last four bytes' % (k, fa[1], fb[1]))]
        return [('disagree', 'trim:step-differs', 'chunk %d: library %s, model %s' % (k, a[:120], b[:120]))]
    return []

COMPARE = {
    'trim': cmp_trim,
    'hs-pair': cmp_hs_pair,
    'window': cmp_window,
    'pools': cmp_pools,
    'life': cmp_life,
    'ping': cmp_ping,
    'netconn': cmp_netconn,
    'wsjson': cmp_wsjson,
    'sched': cmp_sched,
    'hs-accept': cmp_hs_accept,
    'hs-dial': cmp_hs_dial,
    'pair': cmp_pair,
    'close': cmp_close,
    'wire-in': cmp_wirein,
    'agree-in': cmp_wirein,
    'agree-out': cmp_wireout,
    'mask': cmp_mask,
    'wire-out': cmp_wireout,
}

def nontrivial(suite, case, impl):
    if suite == 'mask':
        d = case.get('data', '-')
        m = re.match(r'gen:\w+:(\d+):', d)
        n = int(m.group(1)) if m else (0 if d == '-' else len(d) // 2)
        return n >= 4
    if suite == 'wire-in':
        return case.get('ops', '').count('R') > 1 and len(case.get('stream', '')) > 16
    if suite in ('pair', 'hs-accept', 'hs-dial', 'hs-pair', 'sched', 'wsjson', 'life', 'ping'):
        return True
    if suite == 'pools':
        return case.get('hist', '').count('msg:') >= 2
    if suite == 'trim':
        return case.get('chunks', '').count(',') >= 1
    if suite == 'window':
        return 'put:' in case.get('hist', '') and case.get('hist', '').count('w:') >= 2
    if suite == 'netconn':
        return case.get('kind') != 'stream' or ',' in case.get('writes', '')
    if suite == 'wire-out':
        return int(impl.get('n', '0') or 0) > 200 or '|' in case.get('prog', '')
    return True

FLATE_ASSUME = 'compress/flate is an oracle (Section variables dz / inflate), instantiated in the runner by Go\'s compress/flate run by the harness on its own objects; theorems about compressed messages hold for EVERY compressor behaviour unless they name the flate contract'

COMMON_TRUSTED = [
    'extraction: Require Extraction + ExtrOcamlBasic only (bool/option/unit/list/prod/sumbool/sumor mapped to OCaml; N, Z, positive, nat stay inductive); no Extract Constant',
    'hand-written OCaml driver /verif/ocaml (hex, PRNG, digests) and Go harness /verif/harness; python orchestrator /verif/check',
    'translator /verif/tools/constx (Go constants, validWireCloseCode, the switches of writeFrameHeader / readFrameHeader, readRSV1Illegal, CompressionMode.opts, the checks of readLoop / handleControl, the EOF codes of netConn.read, verifyClientRequest, the decisions of writeFrame, verifyServerResponse / verifySubprotocol / verifyServerExtensions, acceptDeflate / validWindowBits, authenticateOrigin, CloseError.bytesErr / parseClosePayload / writeClose, the two flateContextTakeover functions, compressionOptions.String, the headers set by handshakeRequest and accept, the separators and loop shapes of headerTokens / websocketExtensions / hasDuplicateParams / selectDeflate / selectSubprotocol -> coq/Gen/*.v; http.StatusSwitchingProtocols is written as 101; header keys are compared after canonicalisation (canon_key, ASCII tokens))',
]

WIREIN_RULE = ('wire-in suite: seeded peer byte streams = 1-4 messages (plain / compressed at 5 deflate levels incl. stored and Huffman-only, '
               'BFINAL endings, > 1000:1 bombs) x fragmentation {none, random, per byte, empty fragments} x pings/pongs between and inside messages, then '
               'valid | one injected violation per clause | cut at a random offset | garbage / bit flips; every cut offset of scripted 3-message streams; '
               'transport chunking {whole,1,3,7,100,4096} x ending {EOF, failure}; both roles x {no compression, 4 (cnct,snct) combinations}; read scripts with '
               'buffer sizes {1,7,512,4096,32768,100000,ReadAll} and SetReadLimit. non-trivial = at least two Reader calls and a stream > 8 bytes; distinct = distinct case line')
READER_TRUST = ['Reader model hand-written from read.go / frame.go / close.go; tie = every observation (message types, delivered bytes, where and how reading fails, '
                'Pongs and Close frames written) equals the extracted model\'s on the same byte stream, chunking and ending',
                'bufio.Reader / io.ReadFull deliver the concatenation of what arrives independent of chunking (assumed; every case is run with a scripted chunking)']

HS_TRUST = ['Handshake model hand-written from accept.go / dial.go / compress.go; the Go standard library functions it depends on are re-implemented in Gallina and were validated '
            'differentially against Go 1.23.5: url.Parse host extraction (861k cases), filepath.Match (569k), strings.EqualFold/ToLower on the documented domain, base64.StdEncoding (1.2k), SHA-1',
            'net/http delivers canonical header keys; header values may contain ASCII white space only; non-ASCII cased runes other than U+212A / U+017F are outside the EqualFold model',
            'the SecWebSocketKey is crypto/rand input: the model reasons about the relation between key and accept value only']

PROPS = {
    'C05': dict(
        suites=['sched'],
        race_suites=['sched', 'pair'],
        rule='sched suite: 2-8 concurrent writer goroutines (Write and streaming Writer with 1-4 chunks; every message tagged with writer id and sequence number, length- and content-distinct), '
             'a pinger, a CloseRead reader, and a closer (Close / CloseNow / peer Close frame / none) fired after a seeded delay, on both roles and all compression modes; the transport yields or sleeps at seeded '
             'points inside the library\'s writes; the verif hooks record the order of lock / unlock / frame / close events. Judge: the raw peer\'s recording parses, is conformant (frames atomic, messages '
             'unmixed), every decoded message is exactly one written message, per-writer order, acknowledged messages present, nothing after Close. Tie: the observed schedule is replayed event by event in '
             'Model/Sched.v and must be an execution of it with the same frame order. non-trivial = every case (>= 2 writers); distinct = distinct case line',
        trusted=COMMON_TRUSTED + ['Model/Sched.v is a hand-written interleaving semantics of conn.go mu / close and write.go writeFrame / msgWriter; tie = replay of hook-recorded schedules (the hooks record an event just after the action, '
                                  'so a Closed event may trail the close by a few instructions: the replay may perform a close early when the library already behaves closed)', FLATE_ASSUME],
        assumptions=['Go channel / select semantics as encoded in Sched.step (a lock may fail whenever the connection is closed)', 'the Go memory model is outside the model: absence of data races is checked by go test -race on the same programs in the thorough tier only'],
        not_covered=['data-race freedom in the Go memory model (race detector, sampled schedules, thorough tier)', 'a read racing Close (read-side interleavings are not in Sched.v)'],
        level_text='Theorems for ALL schedules, thread counts and programs of the interleaving model: frames are written atomically, data frames of two messages never interleave, each writer\'s writes keep program order, '
                   'the frame lock is held wherever frame bytes are produced. Tie: hook-recorded schedules of real concurrent runs are accepted by the model and reproduce the frame order; the wire is judged by the extracted decoder.',
        level_note='all-schedules theorems: frames atomic, messages unmixed, per-writer order, frame lock held while writing, C05_acked_on_wire (a write that returned nil is on the wire completely and exactly once), and progress: C05_no_deadlock (open state, no leaked message lock => some thread can step), C05_closed_progress / C05_closed_bounded (after the close every call finishes in <= 3 own steps). Partial: data races in the Go memory model are not covered by a theorem (race-detector run in the thorough tier); the read side is serialised by readMu (mutual exclusion of sections proved in Model/Life.v, see C09/C10).',
        technique='Coq proof (5-part invariant over a small-step interleaving semantics) + replay of recorded schedules + decoder judge on concurrent runs',
    ),
    'C06': dict(
        suites=['close', 'wire-out'],
        rule='close suite: Close(code, reason) for every boundary of the status-code ranges (all 65536 codes in the thorough tier) x reason lengths {0,1,122,123,124,130} and random '
             'codes/lengths against an echoing raw peer, peer-initiated Close frames with every payload shape (valid codes, invalid codes, empty, one byte, after a message), '
             'every order of Close/CloseNow triples, each followed by a random sequence of Write/Writer/Read/Ping/Close/CloseNow; plus the wire-out programs. '
             'non-trivial = every case (each has >= 2 steps); distinct = distinct case line',
        trusted=COMMON_TRUSTED + ['valid_wire_code is TRANSLATED from close.go on every run (Gen/CloseCode.v); CloseSM is a hand-written state machine tied by the close suite'],
        assumptions=['the raw peer echoes at once; bounded-time behaviour against silent peers is C09'],
        level_text='Theorems: the translated validWireCloseCode is exactly the RFC/IANA table on all of Z; close payload codec round-trips; refused codes/reasons are never sent and Close errors; '
                   '1005 sends an empty payload; a valid handshake writes exactly that Close frame and returns nil; a received Close is echoed with the same code and reason and reported as such; '
                   'after Close/CloseNow returned every later call fails and Close/CloseNow match net.ErrClosed (for every later history).',
        level_note='Source tie by translation: C06_refusal_is_source, C06_empty_payload_is_source, C06_parse_is_source — what Close refuses to marshal, the one code sent with an empty payload and the parsing of a received payload are the checks of CloseError.bytesErr, writeClose and parseClosePayload translated from close.go on every run (Gen/ClosePayloadCode.v; the translator also checks the shape of the marshalling: 2+len(reason) bytes, big-endian code, the reason). CloseSM abstracts the handshake to its API-visible outcomes; timing and concurrency of the handshake are C09/C05/C16.',
        technique='Go->Gallina translation of validWireCloseCode / bytesErr / parseClosePayload / the payload decision of writeClose + Coq proofs (all of Z; induction over histories) + differential run against a scripted raw peer',
    ),
    'C01': dict(
        suites=['pair', 'wire-out', 'trim'],
        rule='trim suite: the four-byte trim writer (compress.go trimLastFourBytesWriter, through a verif-tagged export) fed ARBITRARY chunkings (all pairs and many triples of sizes 0..6, random sequences up to 300 bytes per chunk) — '
             'compress/flate itself only ever produces a few chunk shapes —: the chunks handed downstream and the withheld tail after every Write are those of Model/Window.v trim_step. pair suite: two LIBRARY endpoints (real Dial/Accept negotiation) for all 3x3 client/server compression modes x thresholds {default,1,64,1000} per side, each side writing a '
             'program of Write / Writer(chunks) messages (sizes from the boundary set 0..65537, multiples of 4096 +-1, one >= 1 MiB per 50 cases, histories > 32 KiB with takeover) while the '
             'other reads with buffer sizes {1,7,512,4096,32768,100000,ReadAll}; both wires are tapped. Judge = received list equals written list per direction (type, length, digest, order) '
             'and caller buffers unchanged (checksums). Plus the wire-out programs. non-trivial = every case; distinct = distinct case line',
        trusted=COMMON_TRUSTED + [FLATE_ASSUME],
        assumptions=[FLATE_ASSUME, '"caller buffers are never modified" is vacuous on immutable Gallina values: the model makes the copy-then-mask step explicit (C01_payload_masking is about the BUFFER); '
                     'that the caller\'s slice is untouched is established by checksums in the harness only'],
        level_text='Theorems: Reader∘Writer delivers exactly the messages written, in order, with their types, for every program — without compression unconditionally, with compression under the stated flate contract; frames parse back exactly for every program/configuration/compressor behaviour; the client\'s copy-then-mask bufio loop puts pending ++ mask(payload) on the wire for every '
                   'buffer fill state; the trim writer sends all but the last 4 bytes for any chunking; the sliding-window dictionary is the last 32 KiB for any slice sizes. Tie: model wire = tapped wire and '
                   'model delivery = library delivery on every case; judge: received = written.',
        level_note='Source tie by translation: C01_compression_decision_is_source / C01_threshold_is_source — a message becomes compressed exactly when msgWriter.Write (write.go, Gen/WriteCode.v) calls ensureFlate, with the threshold newConn (conn.go) computes. END-TO-END theorems: C01_roundtrip_uncompressed (no compression) and C01_roundtrip_compressed (permessage-deflate negotiated: every role, option set, threshold, program of Write / Writer / Ping / Pong operations, chunking, read-buffer sizes) — the latter under the explicit contract F0-F2 on the compressor / inflater pair, shown satisfiable by C01_contract_satisfiable. That Go\'s compress/flate satisfies F0-F2 is NOT proved: it is what the pair and wire-out suites exercise (the extracted Writer∘Reader composition runs with compress/flate as the oracle and must equal the library).',
        technique='Coq proofs (induction over chunk lists / buffer loop) + differential run of extracted Writer∘Reader vs two library endpoints',
    ),
    'C07': dict(
        suites=['pools', 'window'],
        rule='window suite: the pooled sliding windows of compress.go driven directly (verif-tagged export: a new slidingWindow per incarnation, init, write, close) by 2-3 connections of one process under GOMAXPROCS(1), '
             'capacities 4 / 8 / 16 / 64 / 32768, write sizes around 0, cap/2, cap-1, cap, cap+1, 2*cap+3; after every operation the dictionary (what the inflater would be given) and the whole backing array are compared with '
             'Model/WinPool.v, which replays the pool\'s observed choice of array. pools suite: sequential histories over 2-3 connections (server and client role) sharing the library\'s pools under GOMAXPROCS(1) (sync.Pool then hands a returned object straight to the next Get): open (takeover / no takeover), '
             'compressed and plain messages of 40..40000 bytes tagged with their connection, partial reads, read to the end, reading AGAIN after the end, abandoning a message, a Close frame after the first '
             'fragment of a compressed message, a read limit that trips in the middle of a compressed message (then CloseNow, then other connections reading in alternation), CloseNow and a read on the abandoned reader afterwards; compressed messages WRITTEN by the library (Write, two in a row, a streamed message left unfinished, CloseNow under it, a new connection afterwards, a Write whose last frame fails because the transport went away); a PROBE as the first compressed message of a new connection — a hand-made DEFLATE block whose only token refers 1 or 32768 bytes back, before the first byte of the connection itself: nothing may be inflated from it; every finished Write must have reached the transport of its own connection and no other; plus the historical witnesses. The pool hooks record Get / Put / Use of every flate reader and flate writer per connection. '
             'Judge: every byte returned by a read carries its own connection\'s tag. Tie: the observed Get/Put/Use events drive Model/Pools.v (a Get of a held object, a Put by a non-holder or a Use of an object not held '
             'is a violation). non-trivial = histories with >= 2 messages; distinct = distinct case line',
        trusted=COMMON_TRUSTED + ['Model/Pools.v abstracts data to object ownership (which connection holds which pooled flate reader and what its limitReader points to); flate/bufio objects deliver bytes of the source they were last Reset onto (assumed)',
                                  'the flate reader and flate writer pools are hooked (the write side of a connection is a holder of its own in the replay); sliding windows are modelled with their backing arrays (Model/WinPool.v) and compared directly through the verif-tagged export VerifWindow; bufio readers/writers and the wsjson buffer pool are covered by the byte-tag judge, the write-routing check and the round-trip suites only'],
        assumptions=['sync.Pool returns a pooled object or none (any choice); GOMAXPROCS(1) makes reuse reproducible in the suite'],
        not_covered=['concurrent (multi-goroutine) interleavings of pool use across connections: sequential histories only; race detector in the thorough tier of C05'],
        level_text='Theorem pools_isolated: for every history of any number of connections (read again after end of message, abandon, close at any moment incl. from underneath a Read, reuse by new connections) every use of a pooled '
                   'flate object happens while the using connection — and no other — holds it, and it is not in the pool. Tie: hook-recorded Get/Put/Use events replayed in the model; judge: no foreign byte in any read. '
                   'Theorems win_dict_own_bytes / win_noninterference (Model/WinPool.v, arrays with their stale contents): for every history of any number of connections taking, filling and returning pooled sliding windows, with the pool handing out '
                   'any array it has or none, the dictionary a connection gives its inflater is the last cap bytes that connection ITSELF wrote since it took the window — a function of its own operations alone — although the array still holds the previous holder\'s bytes.',
        level_note='ownership model replayed for the flate reader and the flate writer pools; sliding windows compared array by array; other pools by the judge only.',
        technique='Coq proof (ownership invariant over arbitrary histories; sliding-window pool with backing arrays: own-bytes and non-interference theorems) + replay of hook-recorded pool events + direct differential run of the sliding windows + connection-tagged payloads and out-of-window probes',
    ),
    'C11': dict(
        suites=['hs-accept'],
        rule='hs-accept suite: the real Accept on synthetic requests with a recording ResponseWriter/Hijacker: method x HTTP version x Connection/Upgrade token lists (case, several tokens, several '
             'header lines, empty tokens, U+017F) x version values x key variants (missing, duplicated, 15/16/17 bytes, non-base64, missing padding, spaces, newline inside) x offered x supported '
             'subprotocols x extension offers x origins x pattern sets x modes, mostly-valid with 1-2 mutated fields plus fully random; plus the origin x pattern grid and the offer x mode grid. '
             'non-trivial = every case; distinct = distinct case line',
        trusted=COMMON_TRUSTED + HS_TRUST, assumptions=['HTTP parsing and the hijack mechanics of net/http are outside the model (pipelined frames after the request are not covered by this check)'],
        not_covered=['pipelined client frames through a real net/http server'],
        level_text='Theorems: Accept answers 101 iff the request is a valid WebSocket upgrade (declarative predicate) with an authorised origin; otherwise 426/405/400/403 and nothing negotiated; the accept value is '
                   'base64(SHA-1(key ++ GUID)) with Gallina SHA-1 and base64 (RFC vectors by vm_compute, base64 round trip proved); subprotocol = first server-preferred protocol offered. '
                   'Tie: status / hijack / response headers / negotiated options equal the model\'s on every generated request.',
        level_note='Source tie by translation: C11_subprotocol_selection_is_source / C11_tokens_are_source (selectSubprotocol, headerTokens, Gen/ParseCode.v); C11_response_is_source — status and headers of the answer are those accept (accept.go) writes, in its order and under its conditions (Gen/HeaderCode.v); C11_checks_are_source — the model answers what the chain of checks of verifyClientRequest, translated from accept.go on every run (Gen/AcceptCode.v: same checks, same order, same HTTP status), answers. decision procedure fully modelled; net/http request parsing not modelled.',
        technique='Go->Gallina translation of verifyClientRequest and of the response headers of accept + Coq proofs over a Gallina model of accept.go (+ Gallina SHA-1/base64) + differential run through the real Accept',
    ),
    'C12': dict(
        suites=['hs-accept'],
        rule='hs-accept suite (see C11) incl. the full grid of 43 origins (scheme / userinfo tricks / ports / suffix, prefix and sub-domain look-alikes / path, query, fragment containing the host / null / '
             'schemeless / mixed case / escapes / IPv6 / control bytes) x 17 pattern sets (wildcards, classes, malformed patterns in every position) against a valid request. non-trivial = every case',
        trusted=COMMON_TRUSTED + HS_TRUST, assumptions=['url.Parse and filepath.Match are modelled for Go 1.23.5 (validated, not derived)'],
        level_text='Theorems: the origin decision as an iff over the parsed host, the host comparison and the ordered pattern list; absent origin allowed; refused => 403 with nothing taken over; the parsed host never '
                   'contains / ? # @ (path, query, fragment, userinfo cannot supply it); a literal pattern authorises exactly itself.',
        level_note='Source tie by translation: C12_decision_is_source — the model takes the decisions of authenticateOrigin in the source\'s order (empty Origin, url.Parse failure, EqualFold(r.Host, u.Host), then pattern by pattern: malformed refuses, match authorises), translated from accept.go on every run (Gen/OriginCode.v; the translator also checks that match lowers both sides). Gallina re-implementations of url.Parse (host) and filepath.Match, proved properties + differential validation; EqualFold restricted as documented.',
        technique='Go->Gallina translation of the decision order of authenticateOrigin + Coq proofs over Gallina models of url.Parse/filepath.Match/authenticateOrigin + differential run through the real Accept',
    ),
    'C13': dict(
        suites=['hs-dial', 'hs-pair'],
        rule='hs-pair suite: the real Dial against the real Accept over an in-memory transport (client subprotocol lists: clean names, and names with commas / spaces / empty; server lists; 3x3 compression modes; origin '
             'patterns on the server) compared with the composition of Model/HsCompose.v. hs-dial suite: the real Dial with a scripted RoundTripper: status codes x Connection/Upgrade values x accept-key variants (correct, for another key, missing, upper-cased, empty, doubled) x '
             'subprotocol values x requested lists x extension responses x 3 client modes x caller headers (incl. attempts to override the reserved ones) x Host override; the request Dial built is inspected. '
             'non-trivial = every case',
        trusted=COMMON_TRUSTED + HS_TRUST, assumptions=['"fresh random key per attempt" is crypto/rand: the harness checks one base64 value of 16 bytes per dial (a test of the wiring, not of randomness)', 'http.Client redirect/proxy behaviour is outside the model'],
        level_text='Theorems: the request carries exactly the mandated header values (and the joined subprotocols / the extension offer of the mode); a connection is returned iff status 101, upgrade tokens, '
                   'the accept value for the key sent, an asked-for subprotocol (or none) and honourable extensions. Tie: result, subprotocol, negotiated options and the full request header set equal the model\'s. '
                   'Composition (C13_lib_lib_handshake): for every client configuration with clean subprotocol names, every 16-byte nonce, every Host and every server configuration, the library server upgrades the library '
                   'client\'s request and the client accepts the answer, ending with exactly the compression parameters the server holds; the announced subprotocol is one the client asked for.',
        level_note='Source tie by translation: C13_response_checks_are_source (the chain of checks of verifyServerResponse / verifySubprotocol in their order, Gen/DialCode.v; the extension check is C14_verify_exts_is_source), C13_request_headers_are_source / C13_request_method_is_source (method and headers handshakeRequest sets, in order, under its conditions, Gen/HeaderCode.v). decision fully modelled; "no connection on error" is observed (ok=2 never) not proved (it is about Go return values).',
        technique='Go->Gallina translation of verifyServerResponse / verifySubprotocol / the headers of handshakeRequest + Coq proofs over a Gallina model of dial.go + differential run through the real Dial',
    ),
    'C14': dict(
        suites=['hs-accept', 'hs-dial', 'pair', 'hs-pair', 'agree-in', 'agree-out'],
        rule='hs-accept (all extension-offer lists up to 3 offers from a 29-offer grammar incl. window-bits with/without values 7,8,15,16,abc,empty,08, duplicates, unknown parameters, other extensions, '
             'case/spacing variants x 3 modes), hs-dial (22 responses x 3 modes) and the pair suite (every successful library-library handshake is followed by a multi-message compressed exchange in both '
             'directions); hs-pair: the real Dial against the real Accept, both ends must hold the same parameters, those of the composed model; agree-in / agree-out: both roles x every combination of the two no_context_takeover flags (the asymmetric ones, which two library endpoints never negotiate, included), 3-5 compressed messages that repeat one text sent by / received by a reference peer that applies the agreement (wire-in / wire-out runners, models and judges). non-trivial = every case',
        trusted=COMMON_TRUSTED + HS_TRUST + [FLATE_ASSUME], assumptions=[FLATE_ASSUME],
        level_text='Theorems: the server accepts only the first acceptable offer (no duplicates, only honourable parameters), falls back otherwise, echoes server_no_context_takeover when asked, renders a response '
                   'with nothing but the agreed flags; the client accepts only what it can honour and follows the RESPONSE for the server direction; library-library agreement for all 3x3 modes; per-direction '
                   'compatibility with a foreign endpoint that applies the response; sender and receiver consult the same flag.',
        level_note='Source tie by translation: C14_mode_opts_is_source (CompressionMode.opts, Gen/FrameCode.v); C14_accept_deflate_is_source, C14_verify_exts_is_source, C14_window_bits_are_source (duplicate guard, guards, flag reset and per-parameter classification of acceptDeflate / verifyServerExtensions with their string literals, Gen/NegoCode.v); C14_reader_takeover_is_source / C14_writer_takeover_is_source (which side\'s flag a direction consults, Gen/TakeoverCode.v); C14_rendering_is_source (compressionOptions.String, Gen/HeaderCode.v); C14_selection_is_source / C14_offers_are_cut_as_in_source (selectDeflate, websocketExtensions, Gen/ParseCode.v). The exchange after an agreement — asymmetric ones included — is run against a reference peer by agree-in / agree-out; the reader / writer theorems it relies on are C01-C03 (flate oracle).',
        technique='Go->Gallina translation of acceptDeflate / verifyServerExtensions / flateContextTakeover / compressionOptions.String + Coq proofs over a Gallina model of the negotiation (finite mode grid by computation, offers by induction) + differential runs through Accept/Dial + end-to-end exchanges with a reference peer',
    ),
    'C18': dict(
        suites=['netconn'],
        rule='netconn suite: byte streams through NetConn on two library endpoints (write-size sequences 0..70000 incl. 0, 125/126, 4096+-1, 65535/65536 against cyclic read-buffer sequences 1..100000, both message types, '
             '3x3 compression modes); peer Close frames with codes 1000/1001/1002/1003/1008/1011/3000/4000/4999 after a message; a message of the other type; deadlines in the past / 20 ms future while idle, and firing '
             'during a blocked Read / a Write that blocks on a stalled transport. non-trivial = stream cases with >= 2 writes and every other kind; distinct = distinct case line',
        trusted=COMMON_TRUSTED + ['NetConn model at message level (the underlying connection is C01/C03); deadline timers are real time: 20-80 ms margins'],
        assumptions=['whether a timer fires during or between calls in a real run is a scheduling fact: the harness arranges it with sleeps', 'a zero-length read buffer is outside the property (the real Read spins): the model states 0 < size'],
        level_text='Theorems: the adapter\'s Reads return exactly the concatenation of the messages (any write sizes incl. empty, any positive read sizes), every data result non-empty; 1000/1001 read as sticky io.EOF; other close '
                   'codes pass through; wrong type fails and closes with 1003; a deadline firing while idle sets a flag that fails later calls until reset and leaves the connection untouched; firing during a call cancels the side\'s context.',
        level_note='Source tie by translation: C18_eof_codes_are_source — a Read that meets the Close frame of the peer returns io.EOF exactly for the codes in the case list of netConn.read, translated from netconn.go on every run (Gen/ReadCode.v). stream, EOF (both directions: normal / going-away close => io.EOF, and io.EOF ONLY then — C18_eof_only_after_normal_close, C18_fail_never_eof over any sequence of reads), type check and deadline theorems; the deadline theorems are about the flag/tryLock state machine, the effect of the cancelled context is C10.',
        technique='Go->Gallina translation of the EOF case list of netConn.read + Coq proofs (induction over read sizes with a fuel measure) + differential runs through NetConn on real connection pairs',
    ),
    'C19': dict(
        suites=['wsjson'],
        rule='wsjson suite: 1-5 values per connection from a recursive generator (null, bool, numbers, strings with unicode / control characters / HTML characters / 300 bytes, arrays, objects, depth 3) through '
             'wsjson.Write / wsjson.Read on two library endpoints (3x3 compression modes), targets interface{} and json.RawMessage, previously decoded results re-compared after all later reads; documents of 40-80 KB with '
             'the limit raised; struct and []byte targets; 9 malformed / truncated documents from a raw peer. non-trivial = every case',
        trusted=COMMON_TRUSTED + ['encoding/json is the oracle for validity and JSON-equivalence (harness side); the model decides framing, message count per value and the error path'],
        assumptions=['J1: json.Unmarshal of json.Marshal\'s output is JSON-equivalent to the value (hypothesis of C19_roundtrip)', 'that decoded results do not alias the pooled buffer depends on encoding/json copying: exercised by the suite, not proved'],
        not_covered=['non-aliasing of decoded values (behaviour of encoding/json)'],
        level_text='Theorems (for every codec satisfying J1): Write is exactly one text message = encoding + newline; a sequence of writes is read back value by value in order; each Read consumes exactly one message; an invalid '
                   'document fails the Read and closes the connection with 1007. Tie: values round-trip to JSON-equivalent values, one text message each on the tapped wire, 1007 observed for invalid documents.',
        level_note='partial: JSON equivalence and non-aliasing rest on encoding/json (assumed J1 / tested).',
        technique='Coq proofs parameterised by an abstract codec + differential runs through wsjson on real connection pairs',
    ),
    'C09': dict(
        suites=['life'],
        rule='life suite: 30 scripted scenarios x both roles against an adversarial raw peer, wall-clock measured: Close against an echoing / silent / never-reading / flooding / mid-frame-stalling / half-closing peer; '
             'CloseNow with a reader blocked, a writer blocked on a stalled transport, idle; Close while a reader is blocked; CloseRead active when a data message arrives (peer echoing and silent), when the peer closes, '
             'followed by CloseNow; peer close / protocol error / transport failure / abandoned reader / abandoned writer / NetConn followed by Close; plus the C10 cancellation scenarios. Observed: result of every call, '
             'duration of the measured call against the model\'s bound (Close: timeoutWriteClose + timeoutWaitCloseHandshake as regenerated from close.go; CloseNow and blocked calls: prompt) + 1.5 s slack, calls that stayed '
             'blocked, time until CloseRead\'s context is done, library goroutines after the end, hook trace of arm events. non-trivial = every case; distinct = distinct scenario x role',
        trusted=COMMON_TRUSTED + ['Model/Life.v hand-written from conn.go (timeoutLoop, mu, close), read.go / write.go (arming sections), close.go (Close, CloseNow, waitGoroutines), read.go CloseRead; '
                                  'T1: closing the transport fails pending and later transport I/O (net.Conn contract); time is abstract in the model (context-done and timer events); wall-clock bounds are measured with slack'],
        assumptions=['T1 (net.Conn.Close unblocks I/O)', 'fairness of the Go scheduler and timer delivery: every "promptly" is a step count in the model and a measured duration in the run',
                     'freshness of CloseRead goroutine ids (fresh_cr) in the theorems that mention it — goroutine ids are fresh in Go'],
        not_covered=['the wall-clock value of "promptly" (measured, not proved)', 'peer behaviours are environment events of the model; the byte-level stalls (every k) are sampled by the scenarios, not enumerated'],
        level_text='Theorems over every program set and every schedule (= every peer behaviour): a done context of a blocked section (incl. both 5 s contexts of Close) lets the timeout goroutine close the connection, '
                   'which fails the blocked I/O; once closed, every thread inside a call can step and needs at most 4 own steps to return or to reach waitGoroutines (the CloseRead goroutine included — its exit '
                   'cancels the returned context — also when it closes the connection itself); waitGoroutines can proceed as soon as the goroutines exited. Tie: scenario results, durations and goroutine/hook observations.',
        level_note='logical bound proved (step measure <= 4 after close; enabledness); wall-clock durations measured with 1.5 s slack: partial on real time.',
        technique='Coq proofs (invariants over all schedules of an interleaving model of contexts, timeout goroutine, locks and goroutine joins) + timed scenario runs against an adversarial raw peer',
    ),
    'C10': dict(
        suites=['life'],
        rule='life suite (see C09); C10 scenarios: write / read / ping / fragmented read with interleaved ping / compressed read, each followed by the cancellation of its own context and a further round trip; '
             'cancellation and deadline expiry during a blocked read and a blocked write; cancellation before the call. Observed: per-call results, whether the connection is closed afterwards (a later write), '
             'latency of the cancelled call, and — from the hook trace — that every successful section re-armed the timeout goroutine with Background before releasing its lock and that arming happens under the side\'s lock. '
             'non-trivial = every case',
        trusted=COMMON_TRUSTED + ['Model/Life.v (see C09); the hook trace (build tag verif) ties the arm / re-arm discipline of the real sections to the model\'s LArm / LRearm steps'],
        assumptions=['T1', 'freshness of CloseRead goroutine ids (fresh_cr)', 'a section in the model is one arm .. re-arm bracket; which library calls consist of which sections is tied by the hook trace only'],
        not_covered=['latency of the failing call in wall-clock terms (measured)'],
        level_text='Theorems over every program set and schedule: (during) a done context of a call inside its section makes the timeout goroutine close the connection and the call fail; (origin) a watched context other than '
                   'Background always belongs to a call currently in its section or to a failed / failing one; (after success) when all calls that used c returned nil, no side is armed with c and cancelling c leaves the timeout '
                   'goroutine without a step. Tie: per-call results and connection liveness in 30 scenarios x 2 roles + re-arm discipline read off the hook trace.',
        level_note='full on the model, incl. the lock-wait case (C10_giveup_closes: a wait given up on a done context makes the timeout goroutine close the connection); the model\'s section structure is tied to the code by hook traces (every frame written with its context armed, re-armed with Background on success) and scenario outcomes.',
        technique='Coq proofs (invariants over all schedules of the context / timeout-goroutine model) + scenario runs with hook-trace validation of the arm / re-arm discipline',
    ),
    'C20': dict(
        suites=['life', 'sched'],
        rule='life suite (see C09): after every scenario the connection is ended by Close / CloseNow and the goroutine profile is filtered to frames of nhooyr.io/websocket (timeoutLoop, CloseRead func) — any survivor after the '
             'call returned is a leak; the context returned by CloseRead must be done. sched suite: 2-8 writer goroutines, pingers, closers: the hook trace\'s goroutine start/exit events are matched (every started library '
             'goroutine exited before CloseNow returned). non-trivial = every case',
        trusted=COMMON_TRUSTED + ['Model/Life.v (see C09); goroutine profiles (runtime/pprof) and the start/exit hooks as the observation of "has exited"'],
        assumptions=['T1', 'freshness of CloseRead goroutine ids (fresh_cr) for the result form', 'the Go runtime reclaims a goroutine whose function returned (observed via the profile)'],
        not_covered=['waitGoroutines giving up after 15 s (result RWaitTimeout) is excluded by hypothesis: it needs a transport whose Close does not unblock I/O (violates T1)'],
        level_text='Theorems over every program set and schedule: from the step at which Close / CloseNow returns out of waitGoroutines onwards, the timeout goroutine has exited and the CloseRead goroutine that existed then has '
                   'exited; in every state with a Close/CloseNow result the same holds except for a CloseRead goroutine started after the close, which exits in two own steps (C20_joined_refuted shows the exception is real, '
                   'in model and library, and harmless). Tie: goroutine profiles and start/exit hook events after each history.',
        level_note='full on the model given T1; that the runtime reclaims the goroutine is observed.',
        technique='Coq proofs (join invariant over all schedules of the goroutine / waitGoroutines model) + goroutine-profile and hook-trace observation after every scenario and every sched history',
    ),
    'C16': dict(
        suites=['close', 'wire-out', 'sched'],
        rule='close suite (local Close with every code class, peer-initiated Close frames valid and malformed — the latter answered by an error close that leaves the connection open — '
             'every order of Close/CloseNow, each followed by Write/Writer/Read/Ping/Close/CloseNow sequences) + wire-out programs ending in Close with an echoing peer; the raw peer records '
             'every frame until the transport ends and the judge counts Close frames and data frames after the first Close. non-trivial = every case; distinct = distinct case line',
        trusted=COMMON_TRUSTED + ['Model/Sched.v interleaving semantics, tied by replaying hook-recorded schedules (see C05)'],
        assumptions=['the interleaving part of the quantifier (Write racing Close in another goroutine) is modelled by the single close-sent flag consulted under writeFrameMu; see C05'],
        level_text='Theorems: C16_nothing_after_close (every sequential program) and C16_all_interleavings (every schedule of any number of writers, pingers, closers, the read side echoing/answering with a Close, '
                   'outside closes): only Pings/Pongs follow a Close frame on the wire. Tie: the library\'s recorded frames against echoing peers, sequential histories incl. protocol-error closes.',
        level_note='Source tie by translation: C16_refusal_is_source / C16_flag_is_source — the model refuses a frame after the Close frame exactly when the errCloseSent check of writeFrame, translated from write.go on every run (Gen/WriteCode.v), does, and sets the flag exactly when the source does (check before setting, no other assignment: the translator refuses the source otherwise). sequential Writer model theorem + all-interleavings theorem on Model/Sched.v (close-sent flag read and set under the frame lock) + C16_reader_at_most_one_close: for ANY input bytes and read script the read side (protocol-error closes, limit closes, echo) writes at most one Close frame and only Pongs around it.',
        technique='Coq proof (invariant over operation sequences) + differential run against a recording raw peer',
    ),
    'C03': dict(
        suites=['wire-in'], rule=WIREIN_RULE, trusted=COMMON_TRUSTED + READER_TRUST + [FLATE_ASSUME],
        assumptions=[FLATE_ASSUME, 'panics inside the Go standard library on hostile input are covered by the correspondence run only (any panic is an observation no model run produces)'],
        level_text='Theorems (every state / input): each header-level violation of the property\'s list is rejected by readLoop before any data is handed out; top-bit lengths '
                   'and malformed Close payloads fail; header decode∘encode = id. C03_valid / C03_valid_compressed: for every VALID frame stream (any fragmentation, control frames anywhere, both roles, compressed messages with any inflater) and any read-buffer sizes the Reader model '
                   'delivers exactly the messages the specification assigns to the stream and answers its pings; C03_first_violation: after the first header-level violation nothing more is delivered or read and Close 1002 is written. Tie: model = library on every generated stream.',
        level_note='Source tie by translation: C03_violation_list_is_source (the header-level violation list = the translated checks of readLoop, a reserved opcode, the translated checks of handleControl), C03_refusal_with_close_is_source / C03_silent_refusal_is_source (which refusals send Close 1002 first), C03_length_decoding_is_source, C03_negative_length_is_source, C03_rsv1_is_source, C03_model_literals_are_source (Gen/FrameCode.v, Gen/ReadCode.v, regenerated from frame.go / read.go on every run). stream-level theorems: C03_valid (valid uncompressed streams), C03_valid_compressed (valid streams with compressed messages, for EVERY inflater: the reader feeds it payload + tail with the RFC 7692 dictionary and delivers its output), C03_first_violation / _mid (valid prefix, then a header-level violation at a message boundary or inside a fragmented message, then anything: exactly the valid messages are delivered, the read fails, Close 1002 is written, nothing behind the header is read). C03_continuation_without_message / C03_data_frame_inside_message are the two sequence violations at stream level. Corrupt DEFLATE data: the reader hands out what the inflater produced and fails (the companion of C03_valid_compressed, reader_zstream_obs) + correspondence.',
        technique='Go->Gallina translation of the checks of readFrameHeader / readLoop / handleControl / readRSV1Illegal + Coq proof (case analysis over the header / control-frame paths) + differential run of the extracted Reader model vs the library over scripted raw peers',
    ),
    'C04': dict(
        suites=['wire-in'], rule=WIREIN_RULE, trusted=COMMON_TRUSTED + READER_TRUST + [FLATE_ASSUME],
        assumptions=[FLATE_ASSUME],
        level_text='Theorems: the payload stream of a message reports its end only in a state where the final frame has been consumed completely; Read on an uncompressed '
                   'message reports a clean end only then; a transport that ended inside a payload fails the read. Every crash point (cut offset) of scripted streams is '
                   'run through model and library.',
        level_note='full at stream level: C04_no_silent_truncation (uncompressed streams) and C04_no_silent_truncation_compressed (streams with compressed messages, every inflater, both takeover settings) — every cut offset, both endings, both roles, any buffer sizes; the cut sweeps of the correspondence tie the model to the library.',
        technique='Coq proof (induction on the frame loop) + differential run over every cut offset x {EOF, failure} x buffer sizes',
    ),
    'C08': dict(
        suites=['wire-in'], rule=WIREIN_RULE, trusted=COMMON_TRUSTED + READER_TRUST + [FLATE_ASSUME],
        assumptions=[FLATE_ASSUME, 'real heap usage is outside the model: the model state holds no buffer sized by a declared length; memory is not measured by this check'],
        not_covered=['actual heap allocation (runtime behaviour)'],
        level_text='Theorems: after limit+1 bytes every Read fails with the limit error and writes Close 1009; decoded lengths are < 2^63 and top-bit lengths are rejected; '
                   'the default limit constant is regenerated from read.go. Limits around the boundary, changed between messages, and compression bombs are run through model and library.',
        level_note='Source tie by translation: C08_limit_hit_is_source, C08_limit_exhausted_is_source, C08_limit_clamp_is_source, C08_initial_limit_is_source — the four decisions of limitReader.Read about the allowance and the value SetReadLimit stores, translated from read.go on every run (Gen/ReadCode.v), are the ones the model takes. stream-level theorems: C08_limit_stream (uncompressed) and C08_limit_stream_compressed (the limit counts DECOMPRESSED bytes, for every inflater: a bomb is cut off after exactly L+1 delivered bytes with Close 1009); bombs > 1000:1 are also run through model and library; memory is a statement about the model\'s state only (the model inflates a whole message before serving it, the library streams: real heap use is not claimed).',
        technique='Coq proof + differential run (limits -1,0,1,125,1000,65536,default; sizes limit-1..much larger; bombs)',
    ),
    'C15': dict(
        suites=['wire-in', 'ping'],
        rule=WIREIN_RULE + ' | ping suite: 1-6 Ping calls (sequential, or started together and answered in reverse order) on a library endpoint with a reader running, against a raw peer that answers each Ping frame by script: '
             'exact Pong, withheld, duplicated, preceded by an unsolicited Pong, and ten near-miss payloads ("0"+p, "+"+p, p+" ", " "+p, p+"0", empty, "x"+p, last byte changed, first half, "zz") alone, before and after the exact Pong; '
             'calls without an exact Pong get a 300 ms context and must fail; a final exactly echoed Ping must succeed. non-trivial = every ping case',
        trusted=COMMON_TRUSTED + READER_TRUST + ['Model/Ping.v hand-written from conn.go Ping/ping and read.go handleControl(opPong); the ping payloads are read off the wire by the raw peer (the model takes them as given and checks that they are distinct)'],
        assumptions=['ping payloads are distinct (int32 counter: for fewer than 2^32 pings per connection; checked on every run)',
                     'when a Pong and the end of the context race, either result is allowed (the suite keeps them 300 ms apart)'],
        level_text='Theorems (caller side, every event history of registrations, Pongs, context ends and a close): a Ping call returns nil only if a Pong carrying exactly its own payload was handled between its registration '
                   'and its return (C15_ok_own_pong); a Pong completes exactly the waiting calls with that payload and leaves the others waiting (C15_own_pong_only); a Pong nobody waits for changes nothing; own Pong => nil, '
                   'context end / close => error. (read side) every received Ping is answered by one Pong with the identical payload, in order, for every valid stream (C15_pongs_for_stream). Tie: per-call results against a scripted peer; Pongs written for streams.',
        level_note='full on the models (Ping.v for matching, Reader.v for answering); wall-clock margins in the ping suite (300 ms).',
        technique='Coq proofs (induction over event histories; stream-level reader theorem) + differential runs against a scripted raw peer',
    ),
    'C02': dict(
        suites=['wire-out', 'sched'],
        race_suites=['sched'],
        rule='wire-out suite: seeded programs of Write / Writer(chunks) / Ping / Close on a library endpoint (both roles x {no compression, 4 (cnct,snct) '
             'combinations incl. asymmetric} x thresholds {default,1,64,1000}); sizes from the framing/bufio/window boundary set; the raw peer records every byte. '
             'Plus the sched suite (2-8 concurrent writers, a pinger, a closer): the same conformance judge on what concurrent writers put on the wire, incl. that no masking key occurs twice. '
             'non-trivial = more than one op or > 200 wire bytes; distinct = distinct case line',
        trusted=COMMON_TRUSTED + [FLATE_ASSUME, 'mask keys are crypto/rand input to the model (read off the wire); "keys differ between frames" is a test in the judge, not a theorem'],
        assumptions=[FLATE_ASSUME, 'bufio.Writer is transparent for the byte sequence (every operation ends with a flushed final frame)'],
        level_text='Theorem C02_wf: for every program, role, option set, threshold, key supply and every compressor behaviour the Writer model\'s wire bytes parse back '
                   '(specification parser) to exactly the frames written and satisfy every conformance clause of the property. Tie: the library\'s recorded bytes equal the '
                   'model\'s bytes case by case, and the extracted specification decoder (+ inflate) is applied to the library\'s bytes as judge.',
        level_note='C02_header_bits_are_source: RSV1 / MASK / RSV2 / RSV3 of every written frame are what writeFrame sets (Gen/WriteCode.v). Source tie by translation: C02_length_field_is_source / C02_length_bytes_is_source — the 7-bit length field and the extended-length bytes of the model are what the two switches of writeFrameHeader, translated from frame.go on every run (Gen/FrameCode.v), compute. Writer model hand-written from write.go/compress.go/frame.go; compressor is an oracle (C02_decodes states what an independent decoder reassembles for every compressor behaviour; inflation to the plaintext is checked by the judge with Go\'s inflater).',
        technique='Go->Gallina translation of the length switches of writeFrameHeader + Coq proof (invariant over operation sequences; decode∘encode) + differential run of the extracted model vs the library through Dial/Accept with a scripted raw peer',
    ),
    'C17': dict(
        suites=['mask'],
        rule='mask suite: every (fn in {maskGo, maskAsm}) x length x start alignment (64-byte aligned arena, 64 guard bytes each side) '
             'x key with four distinct bytes, plus all 2-piece and sampled 3-piece splits; non-trivial = buffer length >= 4; distinct = distinct case line',
        trusted=COMMON_TRUSTED + ['mask_amd64.s is tied by the correspondence suite only (the proved theorem about the assembly is about the Gallina rendering in Model/MaskAsm.v, when present)'],
        assumptions=['mask_arm64.s cannot be executed on this amd64 host: not covered',
                     'the Go compiler and encoding/binary implement LittleEndian.Uint64/PutUint64 as modelled by pack/unpack'],
        not_covered=['mask_arm64.s'],
        level_text='Theorems for every key, length and content: the Gallina rendering of maskGo equals the XOR definition and returns the rotated key; '
                   'composition over any split; involution.  Tied to mask.go / mask_amd64.s by running the extracted model and the real functions on the '
                   'same buffers (all alignments, guard bytes).',
        level_note='Model of mask.go is hand-written Gallina (Model/Mask.v); tie = correspondence suite through verif_export.go. mask_arm64.s not covered. No axioms.',
        technique='Coq proof (induction over block structure; word XOR reduced to byte XOR) + differential run of extracted model vs maskGo/maskAsm',
    ),
}
