"""Registry used by ./check: per property the theorem file, the correspondence suites, how model and
implementation observations are compared (COMPARE) and which cases count as non-trivial."""
import re

SUITE_TIMEOUT = {}
MODEL_SUITE = {}          # harness suite name -> model runner suite name (when they differ)

# ---------------------------------------------------------------- comparers
# each returns a list of (kind, signature, message); kind 'violation' = the property's own checker
# fails on what the implementation did (a concrete failing input); kind 'disagree' = model and
# implementation differ although the judge has no complaint (correspondence broken).

def cmp_mask(prop, case, impl, model):
    out = []
    if 'PANIC' in impl:
        return [('violation', 'mask:panic', 'implementation panicked: ' + impl['PANIC'])]
    # judge: the property's definition (mask_spec, rotated key) evaluated by the model, applied to the implementation's result
    if impl.get('out') != model.get('spec'):
        out.append(('violation', 'mask:%s:bytes' % case.get('fn'), 'masked bytes differ from the XOR definition'))
    if impl.get('key') != model.get('key'):
        out.append(('violation', 'mask:%s:key' % case.get('fn'), 'returned key is not the key rotated by the length'))
    if impl.get('guard') != 'ok':
        out.append(('violation', 'mask:%s:guard' % case.get('fn'), 'memory outside the buffer was modified: ' + str(impl.get('guard'))))
    if not out and impl.get('out') != model.get('out'):
        out.append(('disagree', 'mask:model-out', 'mechanistic model output differs from implementation'))
    return out

COMPARE = {
    'mask': cmp_mask,
}

def nontrivial(suite, case, impl):
    if suite == 'mask':
        d = case.get('data', '-')
        m = re.match(r'gen:\w+:(\d+):', d)
        n = int(m.group(1)) if m else (0 if d == '-' else len(d) // 2)
        return n >= 4
    return True

COMMON_TRUSTED = [
    'extraction: Require Extraction + ExtrOcamlBasic only (bool/option/unit/list/prod/sumbool/sumor mapped to OCaml; N, Z, positive, nat stay inductive); no Extract Constant',
    'hand-written OCaml driver /verif/ocaml (hex, PRNG, digests) and Go harness /verif/harness; python orchestrator /verif/check',
    'translator /verif/tools/constx (Go constants and validWireCloseCode -> coq/Gen/*.v)',
]

PROPS = {
    'C17': dict(
        suites=['mask'],
        rule='mask suite: every (fn in {maskGo, maskAsm}) x length x start alignment (64-byte aligned arena, 64 guard bytes each side) '
             'x key with four distinct bytes, plus all 2-piece and sampled 3-piece splits; non-trivial = buffer length >= 4; distinct = distinct case line',
        trusted=COMMON_TRUSTED + ['mask_amd64.s is tied by the correspondence suite only (the proved theorem about the assembly is about the Gallina rendering in Model/MaskAsm.v, when present)'],
        assumptions=['mask_arm64.s cannot be executed on this amd64 host: not covered',
                     'the Go compiler and encoding/binary implement LittleEndian.Uint64/PutUint64 as modelled by pack/unpack'],
        not_covered=['mask_arm64.s'],
        level_text='Theorems for every key, length and content: the Gallina rendering of maskGo equals the XOR definition and returns the rotated key; '
                   'composition over any split; involution.  Tied to mask.go / mask_amd64.s by running the extracted model and the real functions on the '
                   'same buffers (all alignments, guard bytes).',
        level_note='Model of mask.go is hand-written Gallina (Model/Mask.v); tie = correspondence suite through verif_export.go. mask_arm64.s not covered. No axioms.',
        technique='Coq proof (induction over block structure; word XOR reduced to byte XOR) + differential run of extracted model vs maskGo/maskAsm',
    ),
}
