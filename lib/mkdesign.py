#!/usr/bin/env python3
"""Re-assembles the as-built parts of DESIGN.md: doc/asbuilt.md (§0a) after §0, doc/tail.md (§10-§12) at the end, with the
per-property summary (lib/mkdesign_table.py) and the seeded-change table (lib/mkseeded_table.py) substituted in."""
import os, re, subprocess, sys
ROOT = os.path.dirname(os.path.dirname(os.path.abspath(__file__)))
def run(script):
    return subprocess.run([sys.executable, os.path.join(ROOT, 'lib', script)], stdout=subprocess.PIPE, check=True).stdout.decode()
d = open(os.path.join(ROOT, 'DESIGN.md')).read()
d = re.sub(r'<!-- ASBUILT-BEGIN -->.*?<!-- ASBUILT-END -->\n', '', d, flags=re.S)
d = re.sub(r'<!-- TAIL-BEGIN -->.*?<!-- TAIL-END -->\n?', '', d, flags=re.S)
asb = open(os.path.join(ROOT, 'doc', 'asbuilt.md')).read()
tail = open(os.path.join(ROOT, 'doc', 'tail.md')).read().replace('@@TABLE@@', run('mkdesign_table.py')).replace('@@SEEDED@@', run('mkseeded_table.py'))
marker = '## 1. What "decides" means'
assert marker in d
d = d.replace(marker, '<!-- ASBUILT-BEGIN -->\n' + asb + '<!-- ASBUILT-END -->\n' + marker, 1)
d = d.rstrip('\n') + '\n\n<!-- TAIL-BEGIN -->' + tail + '<!-- TAIL-END -->\n'
open(os.path.join(ROOT, 'DESIGN.md'), 'w').write(d)
print('DESIGN.md assembled: %d lines' % d.count('\n'))
