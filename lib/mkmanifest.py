#!/usr/bin/env python3
"""Regenerates /verif/MANIFEST.json from lib/props.py (so that it is always valid and current)."""
import json, os, subprocess, sys
ROOT = os.path.dirname(os.path.dirname(os.path.abspath(__file__)))
sys.path.insert(0, os.path.join(ROOT, 'lib'))
import props as P

def hook_commits():
    try:
        out = subprocess.run(['git', '-C', '/repo', 'log', '--format=%H %s'], stdout=subprocess.PIPE).stdout.decode()
        return [l.split(' ', 1)[0] for l in out.splitlines() if l.split(' ', 1)[1].startswith('verif:')]
    except Exception:
        return []

ALL = [json.loads(l)['id'] for l in open(os.path.join(ROOT, 'properties.jsonl')) if l.strip()]
checks = []
for pid in sorted(P.PROPS):
    s = P.PROPS[pid]
    if s.get('not_applicable'):
        continue
    checks.append(dict(
        property_id=pid,
        quick_cmd='./check %s' % pid,
        thorough_cmd='./check %s --tier thorough' % pid,
        evidence_file='/verif/evidence/%s.json' % pid,
        replay_cmd_template='./check %s --replay {path}' % pid,
        engine='coq-model+correspondence',
        level_claimed=dict(category='proof', text=s.get('level_text', ''), design_ref=s.get('design_ref', 'DESIGN.md §10 %s (as built; §5 %s is the plan)' % (pid, pid))),
        level_note=s.get('level_note', ''),
        technique=s.get('technique', 'Coq 8.16.1 theorems on a Gallina model + correspondence check (extracted model vs library)'),
    ))
m = dict(
    version=1,
    setup_cmd='./setup.sh',
    hooks=dict(guard='verif', enable='go build -tags verif (files verif_*.go in /repo are //go:build verif; add-only)',
               baseline_off_cmd='for m in . ./internal/thirdparty; do (cd /repo/$m && go test -mod=mod -json -vet=off -count=1 -timeout 25m ./...); done',
               source_commits=hook_commits(), add_only=True),
    engines=[dict(name='coq-model+correspondence', path='/verif/check', serves_properties=[c['property_id'] for c in checks],
                  kind_free_text='Coq 8.16.1 development under /verif/coq (theorems in coq/Properties), Go->Gallina translator tools/constx, extracted OCaml model runner, Go harness with scripted raw peers, python orchestrator')],
    checks=checks,
    notes='See DESIGN.md. Every check rebuilds the Coq development against constants regenerated from /repo, re-checks the property theorems (Print Assumptions), rebuilds the harness against /repo with -tags verif and compares the extracted model with the library.',
    not_applicable=[dict(property_id=pid, reason=P.PROPS[pid]['not_applicable']) for pid in sorted(P.PROPS) if P.PROPS[pid].get('not_applicable')]
                   + [dict(property_id=pid, reason='check not built yet (work in progress, DESIGN.md §9 staging); the technique applies') for pid in ALL if pid not in P.PROPS],
)
json.dump(m, open(os.path.join(ROOT, 'MANIFEST.json'), 'w'), indent=1)
print('MANIFEST.json written with %d checks' % len(checks))
