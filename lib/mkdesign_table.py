#!/usr/bin/env python3
"""Prints §10 of DESIGN.md (per-property summary as built) from lib/props.py and coq/Properties/*.v."""
import os, re, sys
ROOT = os.path.dirname(os.path.dirname(os.path.abspath(__file__)))
sys.path.insert(0, os.path.join(ROOT, 'lib'))
import props as P
for pid in sorted(P.PROPS):
    s = P.PROPS[pid]
    src = open(os.path.join(ROOT, 'coq', 'Properties', pid + '.v')).read()
    thms = re.findall(r'^Theorem (\w+)', src, re.M)
    exs = re.findall(r'^Example (\w+)', src, re.M)
    print('### %s' % pid)
    print()
    print('* **Theorems** (`coq/Properties/%s.v`, each closed by `exact <lemma>` + `Print Assumptions`): %s.  Non-vacuity `Example`s: %s.' % (pid, ', '.join('`%s`' % t for t in thms), ', '.join('`%s`' % e for e in exs) or '—'))
    print('* **What they say.** %s' % s['level_text'])
    print('* **Strength.** %s' % s['level_note'])
    print('* **Tie** (suites %s): %s' % (', '.join('`%s`' % x for x in s['suites']), s['rule']))
    if s.get('assumptions'):
        print('* **Assumptions used.** ' + '; '.join(s['assumptions']) + '.')
    if s.get('not_covered'):
        print('* **Not covered.** ' + '; '.join(s['not_covered']) + '.')
    print()
