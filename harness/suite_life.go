package main

import (
	"context"
	"fmt"
	"io"
	"runtime"
	"strconv"
	"strings"
	"sync"
	"time"

	"nhooyr.io/websocket"
)

// suite life (C09, C10, C20): scripted scenarios about contexts, blocked calls, close and goroutines against a
// scripted adversary.  All scenarios of a run execute concurrently (they mostly sleep).
//   scen=<name> role=client|server
// Observation: res=<per step: ok|err> closed=<0|1: a later write fails> dur=<ms of the measured call> bound=<...> goroutines=ok|leak:...
//              arm=<ok|bad:...> (hook trace: every successful section re-arms with Background; arms happen under the side's mutex)

func init() {
	suites["life"] = &Suite{Gen: genLife, Run: runLife, Parallel: 40}
}

var lifeScenarios = []string{
	"write-then-cancel", "read-then-cancel", "ping-then-cancel", "fragread-then-cancel", "compressed-read-then-cancel",
	"cancel-during-read", "cancel-during-write", "deadline-during-read", "cancel-before-read", "cancel-before-write",
	"close-echo", "close-silent-peer", "close-peer-never-reads", "close-peer-floods", "close-peer-stalls-mid-frame", "close-peer-half-close",
	"closenow-reader-blocked", "closenow-writer-blocked", "closenow-idle", "close-reader-blocked-echo",
	"closeread-data-echo", "closeread-data-silent", "closeread-peer-close", "closeread-then-closenow",
	"close-unmarshalable-reason", "close-invalid-code", "close-unmarshalable-reason-closeread",
	"stream-write-pong-between-then-cancel", "cancel-during-stream-write", "cancel-while-waiting-for-lock", "emptyfin-read-then-cancel", "closeread-twice-closenow", "closeread-twice-data", "closeread-derived-contexts-closenow", "closeread-parent-cancelled-closenow",
	"peer-close-then-close", "proto-error-then-close", "transport-failure-then-close", "abandoned-reader-close", "abandoned-writer-close", "netconn-close",
}

// stall points (bytes of a second frame — 64-bit length, so a 10- or 14-byte header — delivered in the same transport write as a
// complete first frame, after which the peer goes silent): inside the header at every interesting offset, and inside the payload
// before and beyond the 4096-byte read buffer
var lifeStalls = []int{1, 2, 5, 8, 9, 10, 12, 13, 14, 15, 100, 3000, 4090, 4200}

func genLife(r *Rng, tier string, stat func(string)) []string {
	var out []string
	for _, role := range []string{"client", "server"} {
		for _, k := range lifeStalls {
			out = append(out, fmt.Sprintf("scen=close-stall-%d role=%s", k, role), fmt.Sprintf("scen=cancel-stall-%d role=%s", k, role))
			stat("scen:close-stall")
			stat("scen:cancel-stall")
		}
	}
	reps := 1
	if tier == "thorough" {
		reps = 4
	}
	for k := 0; k < reps; k++ {
		for _, s := range lifeScenarios {
			for _, role := range []string{"client", "server"} {
				out = append(out, fmt.Sprintf("scen=%s role=%s", s, role))
				stat("scen:" + s)
			}
		}
	}
	return out
}

type lifeEnv struct {
	c          *websocket.Conn
	raw        *rawEnd
	peer       *autoPeer
	role       string
	res        []string
	dur        time.Duration
	checkRearm bool
	armBad     string
}

func (e *lifeEnv) step(err error) {
	if err == nil && e.checkRearm && e.armBad == "" {
		// C10: when a call has returned nil, neither side may still be armed with the call's context: the last arm event of each
		// side must be the re-arm with context.Background()
		last := map[int]int{}
		for _, ev := range websocket.VerifTrace(e.c) {
			if ev.Ev == websocket.VerifEvArm {
				last[ev.A] = ev.B
			}
		}
		for side, b := range last {
			if b != 0 {
				e.armBad = fmt.Sprintf("still-armed-after-success:side%d:call%d", side, len(e.res))
			}
		}
	}
	if err == nil {
		e.res = append(e.res, "ok")
	} else {
		e.res = append(e.res, "err")
	}
}

func runLife(kv map[string]string) string {
	role := kv["role"]
	cfg := EndpointCfg{Role: role}
	scen := kv["scen"]
	if scen == "compressed-read-then-cancel" {
		cfg.Flate, cfg.Mode = true, "takeover"
	}
	c, raw, err := newLibConn(cfg)
	if err != nil {
		return "dialerr=" + errClass(err)
	}
	websocket.VerifTraceOn(c)
	defer websocket.VerifTraceOff(c)
	echo := true
	switch scen {
	case "close-silent-peer", "close-peer-floods", "close-peer-stalls-mid-frame", "closeread-data-silent", "close-peer-half-close":
		echo = false
	}
	stallK := -1
	if i := strings.Index(scen, "-stall-"); i > 0 {
		stallK, _ = strconv.Atoi(scen[i+7:])
		scen = scen[:i+6]
		echo = false
	}
	e := &lifeEnv{c: c, raw: raw, role: role}
	e.checkRearm = strings.HasSuffix(scen, "-then-cancel") && scen != "ping-then-cancel" && scen != "stream-write-pong-between-then-cancel"
	if scen != "close-peer-never-reads" && scen != "cancel-during-write" && scen != "closenow-writer-blocked" {
		e.peer = startAutoPeer(raw, role, echo)
	}
	bg := context.Background()
	send := func(f rawFrame) {
		f.DeclLen = -1
		if role == "server" {
			f.Masked, f.Key = true, [4]byte{1, 2, 3, 4}
		}
		raw.Send(f.Encode())
	}
	measure := func(f func() error) {
		t0 := time.Now()
		err := f()
		e.dur = time.Since(t0)
		e.step(err)
	}
	// like measure, for a call that may never return: after limit the step is recorded as blocked
	measureT := func(f func() error, limit time.Duration) {
		t0 := time.Now()
		ch := make(chan error, 1)
		go func() { ch <- f() }()
		select {
		case err := <-ch:
			e.dur = time.Since(t0)
			e.step(err)
		case <-time.After(limit):
			e.dur = limit
			e.res = append(e.res, "blocked")
		}
	}
	stallBytes := func() []byte {
		f1 := rawFrame{Fin: true, Opcode: 1, Payload: []byte("hi"), DeclLen: -1}
		f2 := rawFrame{Fin: true, Opcode: 2, Payload: make([]byte, 70000), DeclLen: -1}
		if role == "server" {
			f1.Masked, f1.Key = true, [4]byte{1, 2, 3, 4}
			f2.Masked, f2.Key = true, [4]byte{5, 6, 7, 8}
		}
		return append(f1.Encode(), f2.Encode()[:stallK]...)
	}
	bound := "prompt"
	closedAfter := func() string {
		ctx, cancel := context.WithTimeout(bg, 2*time.Second)
		defer cancel()
		if c.Write(ctx, websocket.MessageText, []byte("probe")) != nil {
			return "1"
		}
		return "0"
	}
	closedObs := "-"
	crDone := "-"
	innerLeak := ""
	switch scen {
	case "write-then-cancel":
		ctx1, cancel1 := context.WithCancel(bg)
		e.step(c.Write(ctx1, websocket.MessageText, []byte("one")))
		cancel1()
		time.Sleep(60 * time.Millisecond)
		e.step(c.Write(bg, websocket.MessageText, []byte("two")))
		closedObs = closedAfter()
	case "read-then-cancel", "fragread-then-cancel", "compressed-read-then-cancel", "emptyfin-read-then-cancel":
		ctx1, cancel1 := context.WithCancel(bg)
		switch scen {
		case "read-then-cancel":
			send(rawFrame{Fin: true, Opcode: 1, Payload: []byte("hello")})
		case "emptyfin-read-then-cancel":
			// the shape of every streamed message: data in non-final frames, then an EMPTY final continuation frame
			send(rawFrame{Fin: false, Opcode: 1, Payload: []byte("abc")})
			send(rawFrame{Fin: false, Opcode: 0, Payload: []byte("def")})
			send(rawFrame{Fin: true, Opcode: 0, Payload: nil})
		case "fragread-then-cancel":
			send(rawFrame{Fin: false, Opcode: 2, Payload: GenBytes("rand", 5000, 1)})
			send(rawFrame{Fin: true, Opcode: 9, Payload: []byte("p")})
			send(rawFrame{Fin: false, Opcode: 0, Payload: nil})
			send(rawFrame{Fin: true, Opcode: 0, Payload: GenBytes("rand", 70000, 2)})
		default:
			s := &sender{r: NewRng(5), masked: role == "server", flate: true, takeover: true}
			s.message(1, GenBytes("text", 9000, 3), true, "random", true, 1, false)
			raw.Send(s.out)
		}
		c.SetReadLimit(-1)
		_, _, err := c.Read(ctx1)
		e.step(err)
		cancel1()
		time.Sleep(60 * time.Millisecond)
		send(rawFrame{Fin: true, Opcode: 1, Payload: []byte("again")})
		_, _, err = c.Read(bg)
		e.step(err)
		closedObs = closedAfter()
	case "ping-then-cancel":
		c.CloseRead(bg)
		ctx1, cancel1 := context.WithCancel(bg)
		e.step(c.Ping(ctx1))
		cancel1()
		time.Sleep(60 * time.Millisecond)
		e.step(c.Ping(bg))
		closedObs = closedAfter()
	case "cancel-during-read", "deadline-during-read":
		var ctx1 context.Context
		var cancel1 context.CancelFunc
		if scen == "cancel-during-read" {
			ctx1, cancel1 = context.WithCancel(bg)
			go func() { time.Sleep(100 * time.Millisecond); cancel1() }()
		} else {
			ctx1, cancel1 = context.WithTimeout(bg, 100*time.Millisecond)
		}
		defer cancel1()
		measure(func() error { _, _, err := c.Read(ctx1); return err })
		e.dur -= 100 * time.Millisecond
		closedObs = closedAfter()
	case "cancel-during-write":
		raw.Stall(true)
		ctx1, cancel1 := context.WithCancel(bg)
		go func() { time.Sleep(100 * time.Millisecond); cancel1() }()
		measure(func() error {
			var err error
			for i := 0; i < 64 && err == nil; i++ { // fill the 4096-byte bufio and block in the transport
				err = c.Write(ctx1, websocket.MessageBinary, make([]byte, 8192))
			}
			return err
		})
		e.dur -= 100 * time.Millisecond
		raw.Stall(false)
		closedObs = closedAfter()
	case "stream-write-pong-between-then-cancel", "cancel-during-stream-write":
		// a streamed message whose frames are separated by a control frame written by somebody else (the Pong the reader
		// sends for the peer's Ping): every one of its frames must still be written under its context
		crctx := c.CloseRead(bg)
		_ = crctx
		ctx1, cancel1 := context.WithCancel(bg)
		w, err := c.Writer(ctx1, websocket.MessageBinary)
		if err == nil {
			_, err = w.Write([]byte("first chunk"))
		}
		e.step(err)
		send(rawFrame{Fin: true, Opcode: 9, Payload: []byte("pp")}) // the library answers with a Pong in between
		time.Sleep(60 * time.Millisecond)
		if scen == "stream-write-pong-between-then-cancel" {
			_, err = w.Write([]byte("second chunk"))
			if err == nil {
				err = w.Close()
			}
			e.step(err)
			cancel1()
			time.Sleep(60 * time.Millisecond)
			e.step(c.Write(bg, websocket.MessageText, []byte("after")))
			closedObs = closedAfter()
		} else {
			raw.Stall(true)
			go func() { time.Sleep(100 * time.Millisecond); cancel1() }()
			measureT(func() error {
				var err error
				for i := 0; i < 64 && err == nil; i++ { // fill the bufio and block in the transport, inside a continuation frame
					_, err = w.Write(make([]byte, 8192))
				}
				return err
			}, 6*time.Second)
			e.dur -= 100 * time.Millisecond
			raw.Stall(false)
			closedObs = closedAfter()
		}
	case "cancel-while-waiting-for-lock":
		// A blocks in a write on a stalled transport (holding the message and frame locks, no deadline); B's Write waits for the
		// message lock and its context ends: B returns promptly with an error AND the connection is closed — which also frees A
		raw.Stall(true)
		aerr := make(chan error, 1)
		go func() {
			var err error
			for i := 0; i < 64 && err == nil; i++ {
				err = c.Write(bg, websocket.MessageBinary, make([]byte, 8192))
			}
			aerr <- err
		}()
		time.Sleep(80 * time.Millisecond)
		ctx1, cancel1 := context.WithTimeout(bg, 100*time.Millisecond)
		measureT(func() error { return c.Write(ctx1, websocket.MessageText, []byte("b")) }, 6*time.Second)
		cancel1()
		e.dur -= 100 * time.Millisecond
		select {
		case err := <-aerr:
			e.step(err)
			closedObs = "1"
		case <-time.After(3 * time.Second):
			e.res = append(e.res, "blocked")
			closedObs = "0"
		}
		raw.Stall(false)
	case "cancel-before-read", "cancel-before-write":
		ctx1, cancel1 := context.WithCancel(bg)
		cancel1()
		if scen == "cancel-before-read" {
			measure(func() error { _, _, err := c.Read(ctx1); return err })
		} else {
			measure(func() error { return c.Write(ctx1, websocket.MessageText, []byte("x")) })
		}
		// the select in mu.lock may pick ctx.Done (the wait is given up: the timeout goroutine is asked to close) or the lock (then
		// the done context is armed and closes the connection): closed either way, shortly afterwards
		time.Sleep(50 * time.Millisecond)
		closedObs = closedAfter()
	case "close-stall":
		// the peer stops after stallK bytes of a frame that arrived together with a complete one, and never answers
		bound = "5s"
		raw.Send(stallBytes())
		time.Sleep(20 * time.Millisecond)
		measureT(func() error { return c.Close(websocket.StatusNormalClosure, "bye") }, 14*time.Second)
	case "cancel-stall":
		raw.Send(stallBytes())
		c.SetReadLimit(-1)
		_, _, err := c.Read(bg) // the complete first message
		e.step(err)
		ctx1, cancel1 := context.WithCancel(bg)
		go func() { time.Sleep(100 * time.Millisecond); cancel1() }()
		measureT(func() error { _, _, err := c.Read(ctx1); return err }, 6*time.Second)
		e.dur -= 100 * time.Millisecond
		closedObs = closedAfter()
	case "close-unmarshalable-reason", "close-invalid-code", "close-unmarshalable-reason-closeread":
		// a Close whose frame cannot be marshalled still closes the connection and joins its goroutines
		if scen == "close-unmarshalable-reason-closeread" {
			c.CloseRead(bg)
		}
		code, reason := websocket.StatusNormalClosure, strings.Repeat("x", 124)
		if scen == "close-invalid-code" {
			code, reason = websocket.StatusCode(1006), ""
		}
		measureT(func() error { c.Close(code, reason); return nil }, 14*time.Second)
	case "close-echo":
		measure(func() error { return c.Close(websocket.StatusNormalClosure, "bye") })
	case "close-silent-peer", "close-peer-half-close":
		bound = "5s"
		if scen == "close-peer-half-close" {
			bound = "prompt" // the transport ends: the handshake wait fails at once
			raw.End(io.EOF)
		}
		measure(func() error { return c.Close(websocket.StatusNormalClosure, "bye") })
	case "close-peer-never-reads":
		bound = "10s"
		raw.Stall(true)
		// fill the bufio so that the close frame cannot be flushed
		go c.Write(bg, websocket.MessageBinary, make([]byte, 1<<16))
		time.Sleep(50 * time.Millisecond)
		measure(func() error { return c.Close(websocket.StatusNormalClosure, "bye") })
		raw.Stall(false)
	case "close-peer-floods":
		bound = "5s"
		stop := make(chan struct{})
		go func() {
			for {
				select {
				case <-stop:
					return
				case <-raw.LibClosed():
					return
				default:
					send(rawFrame{Fin: true, Opcode: 2, Payload: make([]byte, 1000)})
					time.Sleep(2 * time.Millisecond)
				}
			}
		}()
		measure(func() error { return c.Close(websocket.StatusNormalClosure, "bye") })
		close(stop)
	case "close-peer-stalls-mid-frame":
		bound = "5s"
		f := rawFrame{Fin: true, Opcode: 2, Payload: make([]byte, 300), DeclLen: -1}
		if role == "server" {
			f.Masked, f.Key = true, [4]byte{1, 2, 3, 4}
		}
		b := f.Encode()
		raw.Send(b[:3]) // stops inside the header
		measure(func() error { return c.Close(websocket.StatusNormalClosure, "bye") })
	case "closenow-reader-blocked", "close-reader-blocked-echo":
		rerr := make(chan error, 1)
		var rdur time.Duration
		go func() { _, _, err := c.Read(bg); rerr <- err }()
		time.Sleep(80 * time.Millisecond)
		t0 := time.Now()
		if scen == "closenow-reader-blocked" {
			measure(func() error { return c.CloseNow() })
		} else {
			measure(func() error { return c.Close(websocket.StatusNormalClosure, "") })
		}
		select {
		case err := <-rerr:
			rdur = time.Since(t0)
			e.step(err)
		case <-time.After(8 * time.Second):
			e.res = append(e.res, "blocked")
		}
		if rdur > e.dur {
			e.dur = rdur
		}
	case "closenow-writer-blocked":
		raw.Stall(true)
		werr := make(chan error, 1)
		go func() {
			var err error
			for i := 0; i < 64 && err == nil; i++ {
				err = c.Write(bg, websocket.MessageBinary, make([]byte, 8192))
			}
			werr <- err
		}()
		time.Sleep(80 * time.Millisecond)
		t0 := time.Now()
		measure(func() error { return c.CloseNow() })
		select {
		case err := <-werr:
			if d := time.Since(t0); d > e.dur {
				e.dur = d
			}
			e.step(err)
		case <-time.After(8 * time.Second):
			e.res = append(e.res, "blocked")
		}
		raw.Stall(false)
	case "closenow-idle":
		measure(func() error { return c.CloseNow() })
	case "closeread-twice-closenow", "closeread-twice-data":
		// CloseRead is idempotent: the context of a SECOND call must be cancelled when the connection closes, too
		c.CloseRead(bg)
		ctxB := c.CloseRead(bg)
		t0 := time.Now()
		if scen == "closeread-twice-data" {
			send(rawFrame{Fin: true, Opcode: 1, Payload: []byte("unexpected")})
		} else {
			go func() { time.Sleep(30 * time.Millisecond); c.CloseNow() }()
		}
		select {
		case <-ctxB.Done():
			e.dur = time.Since(t0)
			crDone = "1"
			e.res = append(e.res, "ok")
		case <-time.After(12 * time.Second):
			crDone = "0"
			e.res = append(e.res, "blocked")
		}
		c.CloseNow()
	case "closeread-derived-contexts-closenow":
		// many contexts hang off the one CloseRead returned: cancelling it takes the goroutine a while, and CloseNow must not
		// return before the goroutine is through
		ctxR := c.CloseRead(bg)
		var cancels []context.CancelFunc
		for i := 0; i < 300000; i++ {
			_, cf := context.WithCancel(ctxR)
			cancels = append(cancels, cf)
		}
		measure(func() error { return c.CloseNow() })
		defer func() {
			for _, cf := range cancels {
				cf()
			}
		}()
	case "closeread-parent-cancelled-closenow":
		// the context given to CloseRead is cancelled just before CloseNow (the usual order of deferred calls): CloseNow must
		// still wait for the CloseRead goroutine, whatever state it is in (not yet running, blocked in its read, on its way out)
		for i := 0; i < 60 && innerLeak == ""; i++ {
			ci, rawi, err := newLibConn(cfg)
			if err != nil {
				break
			}
			go rawi.ReadAllUntilClosed()
			websocket.VerifTraceOn(ci)
			ctxP, cancelP := context.WithCancel(bg)
			ci.CloseRead(ctxP)
			switch i % 3 {
			case 1:
				runtime.Gosched()
			case 2:
				time.Sleep(time.Duration(i) * 20 * time.Microsecond)
			}
			cancelP()
			ci.CloseNow()
			crE, tlE := 0, 0
			for _, ev := range websocket.VerifTrace(ci) {
				if ev.Ev == websocket.VerifEvGoExit {
					if ev.A == 1 {
						crE++
					} else {
						tlE++
					}
				}
			}
			websocket.VerifTraceOff(ci)
			if crE != 1 || tlE != 1 {
				innerLeak = fmt.Sprintf("leak-at-return:round=%d:timeoutLoop-exits=%d:closeRead-exits=%d/1", i, tlE, crE)
			}
		}
		measure(func() error { return c.CloseNow() })
	case "closeread-data-echo", "closeread-data-silent", "closeread-peer-close", "closeread-then-closenow":
		ctx := c.CloseRead(bg)
		t0 := time.Now()
		switch scen {
		case "closeread-data-echo":
			send(rawFrame{Fin: true, Opcode: 1, Payload: []byte("unexpected")})
		case "closeread-data-silent":
			bound = "5s"
			send(rawFrame{Fin: true, Opcode: 1, Payload: []byte("unexpected")})
		case "closeread-peer-close":
			send(rawFrame{Fin: true, Opcode: 8, Payload: []byte{0x03, 0xe8}})
		case "closeread-then-closenow":
			go func() { time.Sleep(30 * time.Millisecond); c.CloseNow() }()
		}
		select {
		case <-ctx.Done():
			e.dur = time.Since(t0)
			crDone = "1"
			e.res = append(e.res, "ok")
		case <-time.After(25 * time.Second):
			crDone = "0"
			e.res = append(e.res, "blocked")
		}
		// a CloseNow issued now must return promptly as well
		t1 := time.Now()
		c.CloseNow()
		if d := time.Since(t1); d > time.Second {
			e.res = append(e.res, fmt.Sprintf("closenow-slow:%dms", d.Milliseconds()))
		}
	case "peer-close-then-close":
		send(rawFrame{Fin: true, Opcode: 8, Payload: []byte{0x03, 0xe9}})
		_, _, err := c.Read(bg)
		e.step(err)
		measure(func() error { return c.Close(websocket.StatusNormalClosure, "") })
	case "proto-error-then-close":
		send(rawFrame{Fin: true, Opcode: 3, Payload: []byte("x")})
		_, _, err := c.Read(bg)
		e.step(err)
		measure(func() error { c.Close(websocket.StatusNormalClosure, ""); return nil })
	case "transport-failure-then-close":
		raw.End(errPipeFail)
		_, _, err := c.Read(bg)
		e.step(err)
		measure(func() error { c.Close(websocket.StatusNormalClosure, ""); return nil })
	case "abandoned-reader-close":
		send(rawFrame{Fin: false, Opcode: 2, Payload: make([]byte, 100)})
		_, rd, err := c.Reader(bg)
		e.step(err)
		if rd != nil {
			rd.Read(make([]byte, 10)) // then abandon the message
		}
		measure(func() error { c.Close(websocket.StatusNormalClosure, ""); return nil })
	case "abandoned-writer-close":
		w, err := c.Writer(bg, websocket.MessageText)
		e.step(err)
		if w != nil {
			w.Write([]byte("partial")) // never closed
		}
		measure(func() error { return c.CloseNow() })
	case "netconn-close":
		nc := websocket.NetConn(bg, c, websocket.MessageBinary)
		var wg sync.WaitGroup
		wg.Add(1)
		go func() { defer wg.Done(); nc.Read(make([]byte, 10)) }()
		time.Sleep(50 * time.Millisecond)
		measure(func() error { return nc.Close() })
		wg.Wait()
	default:
		return "unknown-scenario"
	}
	// C20: scenarios that end with Close / CloseNow having RETURNED: the library's goroutines must be gone at this point,
	// before the harness's own cleanup below
	gorAtReturn := ""
	endsClosed := !strings.HasSuffix(scen, "-then-cancel") && !strings.HasPrefix(scen, "cancel-") && scen != "deadline-during-read"
	if endsClosed && (len(e.res) == 0 || e.res[len(e.res)-1] != "blocked") {
		crS, crE, tlE := 0, 0, 0
		for _, ev := range websocket.VerifTrace(c) {
			switch ev.Ev {
			case websocket.VerifEvGoStart:
				if ev.A == 1 {
					crS++
				}
			case websocket.VerifEvGoExit:
				if ev.A == 1 {
					crE++
				} else {
					tlE++
				}
			}
		}
		if tlE != 1 || crS != crE {
			gorAtReturn = fmt.Sprintf("leak-at-return:timeoutLoop-exits=%d:closeRead=%d/%d", tlE, crE, crS)
		}
	}
	c.CloseNow()
	if e.peer != nil {
		select {
		case <-e.peer.done:
		case <-time.After(10 * time.Second):
			return "hang=peer-not-done"
		}
	}
	// goroutines (C20) and arming discipline (C10) from the hook trace
	tr := websocket.VerifTrace(c)
	crStart, crExit, tlExit := 0, 0, 0
	armBad := ""
	lastArm := map[string]int{} // per goroutine+side: last arm value b
	held := map[string]bool{}   // goroutine holds the side's mutex
	armedW := map[string]bool{} // goroutine has armed the write side since it took the frame lock
	for _, ev := range tr {
		g := fmt.Sprint(ev.G)
		switch ev.Ev {
		case websocket.VerifEvGoStart:
			if ev.A == 1 {
				crStart++
			}
		case websocket.VerifEvGoExit:
			if ev.A == 1 {
				crExit++
			} else {
				tlExit++
			}
		case websocket.VerifEvLock, websocket.VerifEvForceLock:
			if ev.Mu == websocket.VerifMuRead {
				held[g+":0"] = true
			} else if ev.Mu == websocket.VerifMuFrame {
				held[g+":1"] = true
				if ev.Ev == websocket.VerifEvLock {
					armedW[g] = false // a new frame section begins: its context has to be handed to the timeout goroutine
				}
			}
		case websocket.VerifEvFrame:
			// C10: EVERY frame is written with the caller's context armed (otherwise a write that blocks ignores cancellation)
			if !armedW[g] && armBad == "" {
				armBad = fmt.Sprintf("frame-written-without-arming:opcode%d", ev.A)
			}
		case websocket.VerifEvUnlock:
			if ev.Mu == websocket.VerifMuRead {
				held[g+":0"] = false
			} else if ev.Mu == websocket.VerifMuFrame {
				held[g+":1"] = false
			}
		case websocket.VerifEvArm:
			k := g + ":" + fmt.Sprint(ev.A)
			if !held[k] && armBad == "" {
				armBad = fmt.Sprintf("arm-without-mutex:side%d", ev.A)
			}
			lastArm[k] = ev.B
			if ev.A == 1 {
				armedW[g] = ev.B == 1
			}
		}
	}
	gor := "ok"
	if tlExit != 1 || crStart != crExit {
		gor = fmt.Sprintf("leak:timeoutLoop-exits=%d:closeRead=%d/%d", tlExit, crExit, crStart)
	}
	if gorAtReturn != "" {
		gor = gorAtReturn
	}
	if innerLeak != "" {
		gor = innerLeak
	}
	if e.armBad != "" && armBad == "" {
		armBad = e.armBad
	}
	if armBad == "" {
		armBad = "ok"
	}
	return fmt.Sprintf("res=%s closed=%s crdone=%s durms=%d bound=%s goroutines=%s arm=%s", strings.Join(e.res, ","), closedObs, crDone, e.dur.Milliseconds(), bound, gor, armBad)
}
