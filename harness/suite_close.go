package main

import (
	"context"
	"fmt"
	"io"
	"strconv"
	"strings"
	"time"

	"nhooyr.io/websocket"
)

// suite close (C06, C16): sequential close histories against a scripted raw peer that echoes Close frames.
//   role= co= mode= thr= steps=<step>|<step>...
//   step = close~code~reasonhex | closenow | peerclose~payloadhex | write | writer | read | ping | pmsg~n~k~frags (the peer sends a message, the application reads k bytes of it)
// Observation: res=<class>,<class>...  closes=<payloadhex>,...   (every Close frame the library wrote)  status=<CloseStatus of the peerclose read>

func init() {
	suites["close"] = &Suite{Gen: genClose, Run: runClose, Parallel: 16}
}

func genClose(r *Rng, tier string, stat func(string)) []string {
	var out []string
	validCode := func(c int) bool {
		return (c >= 1000 && c <= 1014 && c != 1004 && c != 1005 && c != 1006) || (c >= 3000 && c <= 4999)
	}
	afterOpen := func() string { // the connection is still open (a malformed Close frame was answered with 1002): nothing that would block
		ops := []string{"write", "writer", "close~1000~-", "closenow"}
		n := 1 + r.Intn(4)
		var xs []string
		for i := 0; i < n; i++ {
			xs = append(xs, ops[r.Intn(len(ops))])
		}
		return strings.Join(xs, "|")
	}
	after := func() string {
		ops := []string{"write", "writer", "read", "ping", "close~1000~-", "closenow", "close~1001~6279"}
		n := 1 + r.Intn(5)
		var xs []string
		for i := 0; i < n; i++ {
			xs = append(xs, ops[r.Intn(len(ops))])
		}
		return strings.Join(xs, "|")
	}
	add := func(steps string, tag string) {
		out = append(out, genCfg(r)+" steps="+steps)
		stat(tag)
	}
	codes := []int{-1, 0, 999, 1000, 1001, 1002, 1003, 1004, 1005, 1006, 1007, 1008, 1009, 1010, 1011, 1012, 1013, 1014, 1015, 1016, 2999, 3000, 3001, 4998, 4999, 5000, 65535, 65536, 70000, 1 << 31}
	rlens := []int{0, 1, 122, 123, 124, 130}
	if tier == "thorough" {
		codes = nil
		for c := 0; c < 65536; c++ {
			codes = append(codes, c)
		}
		codes = append(codes, -1, 65536, 1<<31)
	}
	for _, c := range codes {
		for _, rl := range rlens {
			if tier == "thorough" && c > 5100 && c%97 != 0 && rl != 0 {
				continue
			}
			add(fmt.Sprintf("close~%d~%s|%s", c, Hex(GenBytes("text", rl, r.Intn(1000))), after()), "local-close")
		}
	}
	nr := 150
	if tier == "thorough" {
		nr = 3000
	}
	for i := 0; i < nr; i++ {
		c := 1000 + r.Intn(4100)
		if r.Intn(3) == 0 {
			c = r.Intn(70000)
		}
		add(fmt.Sprintf("close~%d~%s|%s", c, Hex(GenBytes("text", r.Intn(131), r.Intn(1000))), after()), "local-close-random")
	}
	// peer-initiated closes with every payload shape
	for _, c := range []int{0, 999, 1000, 1001, 1002, 1003, 1004, 1005, 1006, 1007, 1011, 1014, 1015, 1016, 2999, 3000, 4999, 5000, 65535} {
		for _, rl := range []int{0, 1, 50, 123} {
			p := append([]byte{byte(c >> 8), byte(c)}, GenBytes("text", rl, r.Intn(1000))...)
			if validCode(c) {
				add(fmt.Sprintf("peerclose~%s|%s", Hex(p), after()), "peer-close")
			} else {
				add(fmt.Sprintf("peerclose~%s|%s", Hex(p), afterOpen()), "peer-close-badcode")
			}
		}
	}
	add("peerclose~-|"+after(), "peer-close-empty")
	add("peerclose~03|"+afterOpen(), "peer-close-1byte")
	add("write|peerclose~03e86279|"+after(), "peer-close-after-message")
	// Close / CloseNow while a received message is unread or partly read: what is left of it is discarded while waiting for the
	// peer's Close frame (pmsg~<bytes>~<bytes the application reads>~<fragments>; not a call of the model: it changes no close state)
	for _, n := range []int{1, 125, 126, 300, 5000, 70000} {
		for _, frags := range []int{1, 2, 3} {
			for _, k := range []int{0, 1, n / 2, n - 1} {
				if k >= n && k > 0 {
					continue
				}
				add(fmt.Sprintf("pmsg~%d~%d~%d|close~1000~%s|%s", n, k, frags, Hex([]byte("bye")), after()), "close-with-unread-message")
			}
			add(fmt.Sprintf("pmsg~%d~%d~%d|closenow|%s", n, n/3, frags, after()), "closenow-with-unread-message")
		}
	}
	// every order of Close / CloseNow pairs
	for _, a := range []string{"close~1000~-", "closenow"} {
		for _, b := range []string{"close~1000~-", "closenow", "close~4000~78"} {
			for _, c := range []string{"close~1000~-", "closenow"} {
				add(a+"|"+b+"|"+c+"|"+after(), "close-orders")
			}
		}
	}
	return out
}

func normRes(err error) string {
	c := errClass(err)
	switch {
	case c == "nil", c == "closed", strings.HasPrefix(c, "close:"):
		return c
	}
	return "err"
}

func runClose(kv map[string]string) string {
	cfg := cfgFromKV(kv)
	c, raw, err := newLibConn(cfg)
	if err != nil {
		return "dialerr=" + errClass(err)
	}
	peer := startAutoPeer(raw, cfg.Role, true)
	ctx, cancel := context.WithTimeout(context.Background(), 30*time.Second)
	defer cancel()
	var res []string
	status := "-"
	for _, st := range strings.Split(kv["steps"], "|") {
		f := strings.Split(st, "~")
		switch f[0] {
		case "close":
			code, _ := strconv.Atoi(f[1])
			rc := normRes(c.Close(websocket.StatusCode(code), string(Payload(f[2]))))
			if strings.HasPrefix(rc, "close:") { // Close failed because the peer's Close frame carried another code: an error like any other
				rc = "err"
			}
			res = append(res, rc)
		case "closenow":
			res = append(res, normRes(c.CloseNow()))
		case "peerclose":
			peer.send(rawFrame{Fin: true, Opcode: 8, Payload: Payload(f[1])})
			_, _, err := c.Read(ctx)
			res = append(res, normRes(err))
			status = strconv.Itoa(int(websocket.CloseStatus(err)))
		case "pmsg":
			n, _ := strconv.Atoi(f[1])
			k, _ := strconv.Atoi(f[2])
			frags, _ := strconv.Atoi(f[3])
			c.SetReadLimit(-1)
			body := GenBytes("rand", n, n+k)
			for i := 0; i < frags; i++ {
				lo, hi := i*n/frags, (i+1)*n/frags
				op := 2
				if i > 0 {
					op = 0
				}
				peer.send(rawFrame{Fin: i == frags-1, Opcode: byte(op), Payload: body[lo:hi]})
				if i == 0 && frags > 1 {
					peer.send(rawFrame{Fin: true, Opcode: 9, Payload: []byte("p")})
				}
			}
			_, rd, err := c.Reader(ctx)
			if err == nil && k > 0 {
				_, err = io.ReadFull(rd, make([]byte, k))
			}
			if err != nil {
				res = append(res, "pmsg-failed:"+normRes(err))
			}
		case "write":
			res = append(res, normRes(c.Write(ctx, websocket.MessageText, []byte("hello"))))
		case "writer":
			w, err := c.Writer(ctx, websocket.MessageBinary)
			if err == nil {
				_, err = w.Write([]byte("x"))
				if err == nil {
					err = w.Close()
				}
			}
			res = append(res, normRes(err))
		case "read":
			_, _, err := c.Read(ctx)
			res = append(res, normRes(err))
		case "ping":
			res = append(res, normRes(c.Ping(ctx)))
		}
	}
	c.CloseNow()
	select {
	case <-peer.done:
	case <-time.After(20 * time.Second):
		return "hang=peer-not-done"
	}
	fs, _ := parseRawFrames(peer.Recorded())
	var closes []string
	nonclose := 0
	afterClose := 0
	seenClose := false
	for _, f := range fs {
		if f.Opcode == 8 {
			closes = append(closes, Hex(f.Payload))
			seenClose = true
		} else {
			nonclose++
			if seenClose && f.Opcode < 8 {
				afterClose++
			}
		}
	}
	if len(closes) == 0 {
		closes = []string{"none"}
	}
	return fmt.Sprintf("res=%s closes=%s status=%s dataafterclose=%d", strings.Join(res, ","), strings.Join(closes, ","), status, afterClose)
}
