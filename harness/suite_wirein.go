package main

import (
	"bytes"
	"compress/flate"
	"context"
	"encoding/hex"
	"fmt"
	"io"
	"os"
	"strconv"
	"strings"
	"time"

	"nhooyr.io/websocket"
)

// suite wire-in (C03, C04, C08, C15): the raw peer sends a scripted byte stream (valid frames, frames with
// injected violations, truncated at a cut offset, or raw garbage) in a scripted transport chunking and ends the
// transport with EOF or a failure; the library endpoint runs a read script.
//   role= co= mode= limit=<n|default> end=eof|fail chunk=<n> ops=<op,op..> stream=<hex>
//   op = R (Reader) | A (ReadAll) | a<n> (Read with n-byte buffer until the message ends) | L<n> (SetReadLimit)
// Observation:  obs=<R:typ | R:err=class | M:len:fnv:eof | M:len:fnv:err=class>,...  replies=<opc:payloadhex>,...

func init() {
	suites["wire-in"] = &Suite{Gen: genWireIn, Run: runWireIn, Parallel: 8}
}

// ---- stream builder ----

type sender struct {
	hist     []byte // plain text window of the compressed messages sent so far (context takeover)
	r        *Rng
	masked   bool
	flate    bool
	takeover bool // the SENDER keeps its compression context (as negotiated for the sender's direction)
	fw       *flate.Writer
	fbuf     *bytes.Buffer
	out      []byte
	tags     []string // what was generated (for the distribution statistics)
}

func (s *sender) key() [4]byte {
	var k [4]byte
	v := s.r.U64()
	k[0], k[1], k[2], k[3] = byte(v), byte(v>>8), byte(v>>16), byte(v>>24)
	return k
}

func (s *sender) frame(f rawFrame) {
	if f.DeclLen == 0 && !f.HasRaw64 {
		f.DeclLen = -1
	}
	if s.masked && !f.Masked {
		f.Masked = true
		f.Key = s.key()
	}
	s.out = append(s.out, f.Encode()...)
}

// compress returns the RFC 7692 payload of a message (tail removed); bfinal: end the DEFLATE stream with a final block.
func (s *sender) compress(p []byte, level int, bfinal bool) []byte {
	if s.fw == nil || !s.takeover || bfinal {
		s.fbuf = &bytes.Buffer{}
		if s.takeover && len(s.hist) > 0 {
			// a fresh DEFLATE stream inside a connection with context takeover still refers to the LZ77 window of the messages
			// before it (RFC 7692 7.2.3.2): the receiver must have kept ALL of their bytes, also the last ones of a BFINAL message
			s.fw, _ = flate.NewWriterDict(s.fbuf, level, s.hist)
		} else {
			s.fw, _ = flate.NewWriter(s.fbuf, level)
		}
	}
	if s.takeover {
		s.hist = append(s.hist, p...)
		if len(s.hist) > 32768 {
			s.hist = append([]byte(nil), s.hist[len(s.hist)-32768:]...)
		}
	}
	s.fbuf.Reset()
	s.fw.Write(p)
	if bfinal {
		s.fw.Close()
		s.fw = nil
		return append(append([]byte(nil), s.fbuf.Bytes()...), 0x00)
	}
	s.fw.Flush()
	b := s.fbuf.Bytes()
	return append([]byte(nil), b[:len(b)-4]...)
}

func (s *sender) control(opc byte, p []byte) {
	s.frame(rawFrame{Fin: true, Opcode: opc, Payload: p, DeclLen: -1})
}

// message emits one data message with the given fragmentation style.
func (s *sender) message(typ byte, payload []byte, compressed bool, frag string, pings bool, level int, bfinal bool) {
	body := payload
	if compressed {
		body = s.compress(payload, level, bfinal)
	}
	var cuts []int // fragment lengths
	n := len(body)
	switch frag {
	case "none":
		cuts = []int{n}
	case "bytes":
		if n > 40 {
			cuts = []int{20}
			for rest := n - 20; rest > 0; {
				c := 1 + s.r.Intn(rest)
				cuts = append(cuts, c)
				rest -= c
			}
		} else {
			for i := 0; i < n; i++ {
				cuts = append(cuts, 1)
			}
			if n == 0 {
				cuts = []int{0}
			}
		}
	case "empty":
		cuts = []int{0, n / 2, 0, n - n/2, 0}
	default: // random
		rest := n
		for rest > 0 && len(cuts) < 6 {
			c := s.r.Intn(rest + 1)
			cuts = append(cuts, c)
			rest -= c
		}
		cuts = append(cuts, rest)
	}
	pos := 0
	for i, c := range cuts {
		if pings && i > 0 && s.r.Intn(2) == 0 {
			pl := s.r.Pick([]int{0, 1, 5, 124, 125})
			s.control(9, GenBytes("rand", pl, s.r.Intn(1000)))
			s.tags = append(s.tags, "ping-inside")
		}
		if pings && i > 0 && s.r.Intn(6) == 0 {
			s.control(10, GenBytes("rand", s.r.Intn(10), s.r.Intn(1000)))
			s.tags = append(s.tags, "pong-unsolicited")
		}
		opc := byte(0)
		if i == 0 {
			opc = typ
		}
		s.frame(rawFrame{Fin: i == len(cuts)-1, Rsv1: compressed && i == 0, Opcode: opc, Payload: body[pos : pos+c], DeclLen: -1})
		pos += c
	}
}

var violations = []string{"rsv2", "rsv3", "rsv1-nocomp", "rsv1-cont", "rsv1-control", "opcode3", "opcode11", "badmask", "ctl-long", "ctl-frag",
	"cont-first", "new-in-msg", "len-topbit", "close-1byte", "close-badcode", "nonminimal", "close-mid", "close-mid-z", "close-end", "close-empty"}

// violate appends one frame (or message) that breaks the named clause.
func (s *sender) violate(v string) {
	p := GenBytes("text", 10, s.r.Intn(100))
	switch v {
	case "rsv2":
		s.frame(rawFrame{Fin: true, Rsv2: true, Opcode: 1, Payload: p})
	case "rsv3":
		s.frame(rawFrame{Fin: true, Rsv3: true, Opcode: 2, Payload: p})
	case "rsv1-nocomp": // rsv1 although compression was not negotiated (or: on a control frame when it was)
		if s.flate {
			s.frame(rawFrame{Fin: true, Rsv1: true, Opcode: 9, Payload: p})
		} else {
			s.frame(rawFrame{Fin: true, Rsv1: true, Opcode: 1, Payload: p})
		}
	case "rsv1-cont":
		s.frame(rawFrame{Fin: false, Opcode: 1, Payload: p})
		s.frame(rawFrame{Fin: true, Rsv1: true, Opcode: 0, Payload: p})
	case "rsv1-control":
		s.frame(rawFrame{Fin: true, Rsv1: true, Opcode: 10, Payload: p})
	case "opcode3":
		s.frame(rawFrame{Fin: true, Opcode: 3, Payload: p})
	case "opcode11":
		s.frame(rawFrame{Fin: true, Opcode: 11, Payload: p})
	case "badmask": // masking wrong for the role
		f := rawFrame{Fin: true, Opcode: 1, Payload: p, DeclLen: -1}
		if s.masked {
			s.out = append(s.out, f.Encode()...) // unmasked although the sender is a client
		} else {
			f.Masked, f.Key = true, s.key()
			s.out = append(s.out, f.Encode()...) // masked although the sender is a server
		}
	case "ctl-long":
		s.frame(rawFrame{Fin: true, Opcode: 9, Payload: GenBytes("rand", 126, 3)})
	case "ctl-frag":
		s.frame(rawFrame{Fin: false, Opcode: 9, Payload: p})
	case "cont-first":
		s.frame(rawFrame{Fin: true, Opcode: 0, Payload: p})
	case "new-in-msg":
		s.frame(rawFrame{Fin: false, Opcode: 1, Payload: p})
		s.frame(rawFrame{Fin: true, Opcode: 2, Payload: p})
	case "len-topbit":
		s.frame(rawFrame{Fin: true, Opcode: 2, Payload: p, HasRaw64: true, RawLen64: 1<<63 | uint64(s.r.Intn(1000))})
	case "close-1byte":
		s.control(8, []byte{3})
	case "close-badcode":
		code := s.r.Pick([]int{0, 999, 1004, 1005, 1006, 1015, 1016, 2999, 5000, 65535})
		s.control(8, append([]byte{byte(code >> 8), byte(code)}, p...))
	case "nonminimal": // excluded from the property: accepted or not, it must not panic; ends the script
		s.frame(rawFrame{Fin: true, Opcode: 1, Payload: p, LenMode: 2 + 6*s.r.Intn(2)})
	case "close-mid": // a Close frame between fragments of a message
		s.frame(rawFrame{Fin: false, Opcode: 1, Payload: p})
		s.control(8, append([]byte{0x03, 0xe8}, []byte("bye")...))
	case "close-mid-z": // a Close frame after the first fragment of a COMPRESSED message
		if !s.flate {
			s.frame(rawFrame{Fin: false, Opcode: 2, Payload: p})
		} else {
			z := s.compress(GenBytes("text", 300+s.r.Intn(3000), s.r.Intn(100)), flate.BestSpeed, false)
			s.frame(rawFrame{Fin: false, Rsv1: true, Opcode: 1, Payload: z[:len(z)/2]})
		}
		s.control(8, append([]byte{0x03, 0xe9}, []byte("going")...))
	case "close-end":
		code := s.r.Pick([]int{1000, 1001, 1002, 1011, 3000, 4999})
		s.control(8, append([]byte{byte(code >> 8), byte(code)}, GenBytes("text", s.r.Pick([]int{0, 1, 50, 123}), s.r.Intn(100))...))
	case "close-empty":
		s.control(8, nil)
	}
	s.tags = append(s.tags, "viol:"+v)
}

func genWireIn(r *Rng, tier string, stat func(string)) []string {
	n := 1100
	if tier == "thorough" {
		n = 20000
	}
	var out []string
	add := func(cfg string, limit string, end string, chunk int, ops []string, stream []byte, tags []string) {
		out = append(out, fmt.Sprintf("%s limit=%s end=%s chunk=%d ops=%s stream=%s", cfg, limit, end, chunk, strings.Join(ops, ","), Hex(stream)))
		for _, t := range tags {
			stat(t)
		}
		stat("end:" + end)
		stat("chunk:" + strconv.Itoa(chunk))
	}
	for i := 0; i < n; i++ {
		cfg := genCfg(r)
		kv := parseKV(cfg)
		ec := cfgFromKV(kv)
		libServer := ec.Role == "server"
		// the peer's takeover flag for ITS sending direction
		takeover := false
		if ec.Flate {
			if libServer { // peer is the client
				takeover = !ec.Cnct
			} else {
				takeover = !ec.Snct
			}
			if ec.Mode == "notakeover" && libServer {
				takeover = false
			}
		}
		s := &sender{r: r, masked: libServer, flate: ec.Flate, takeover: takeover}
		nmsg := 1 + r.Intn(4)
		var ops []string
		limit := "default"
		if r.Intn(5) == 0 {
			limit = strconv.Itoa(r.Pick([]int{-1, 0, 1, 125, 1000, 65536}))
		}
		kind := r.Intn(10) // 0-5 valid, 6-7 violation, 8 cut, 9 garbage
		bfinalUsed := false
		for m := 0; m < nmsg; m++ {
			sz := pickSize(r, false)
			if r.Intn(3) > 0 {
				sz = r.Intn(600)
			}
			if limit == "default" && r.Intn(8) == 0 {
				sz = r.Pick([]int{32767, 32768, 32769, 40000})
			}
			compressed := ec.Flate && r.Intn(3) > 0
			frag := r.PickS([]string{"none", "none", "random", "random", "bytes", "empty"})
			level := r.Pick([]int{flate.BestSpeed, flate.BestSpeed, flate.DefaultCompression, flate.HuffmanOnly, flate.NoCompression})
			bfinal := compressed && r.Intn(6) == 0 && (!bfinalUsed || takeover)
			payload := Payload(GenField(r, sz))
			if compressed && r.Intn(6) == 0 {
				payload = GenBytes("const", 50000+r.Intn(100000), r.Intn(1000)) // highly compressible (> 1000:1)
				s.tags = append(s.tags, "msg:bomb")
			}
			if r.Intn(5) == 0 {
				s.control(9, GenBytes("rand", r.Pick([]int{0, 1, 125}), r.Intn(1000)))
				s.tags = append(s.tags, "ping-between")
			}
			s.message(byte(1+r.Intn(2)), payload, compressed, frag, r.Intn(3) == 0, level, bfinal)
			if bfinal {
				bfinalUsed = true
				s.tags = append(s.tags, "msg:bfinal")
			}
			if compressed {
				s.tags = append(s.tags, "msg:compressed")
			} else {
				s.tags = append(s.tags, "msg:plain")
			}
			s.tags = append(s.tags, "frag:"+frag)
			if limit != "default" && r.Intn(6) == 0 {
				ops = append(ops, fmt.Sprintf("L%d", r.Pick([]int{-1, 0, 10, 1000, 100000})))
			}
			ops = append(ops, "R")
			if r.Intn(2) == 0 {
				ops = append(ops, "A")
			} else {
				if r.Intn(5) == 0 {
					ops = append(ops, fmt.Sprintf("z%d", r.Pick([]int{1, 7, 512, 4096})))
				} else {
					ops = append(ops, fmt.Sprintf("a%d", r.Pick([]int{1, 7, 512, 4096, 32768, 100000})))
				}
			}
		}
		end := r.PickS([]string{"eof", "eof", "fail"})
		stream := s.out
		switch {
		case kind >= 6 && kind <= 7:
			s.violate(violations[r.Intn(len(violations))])
			stream = s.out
			ops = append(ops, "R", "A")
		case kind == 8 && len(stream) > 0:
			cut := r.Intn(len(stream) + 1)
			stream = stream[:cut]
			s.tags = append(s.tags, "cut")
		case kind == 9:
			// raw garbage after the valid prefix / mutated stream
			g := make([]byte, 1+r.Intn(40))
			for j := range g {
				g[j] = byte(r.U64())
			}
			if r.Bool() && len(stream) > 4 {
				stream = append([]byte(nil), stream...)
				for k := 0; k < 1+r.Intn(3); k++ {
					stream[r.Intn(len(stream))] ^= byte(1 << uint(r.Intn(8)))
				}
				s.tags = append(s.tags, "mutated")
			} else {
				stream = append(append([]byte(nil), stream...), g...)
				s.tags = append(s.tags, "garbage")
			}
			ops = append(ops, "R", "A")
		default:
			s.tags = append(s.tags, "valid")
		}
		ops = append(ops, "R") // one more Reader: hits the end of the transport (or a Close frame)
		chunk := r.Pick([]int{0, 0, 1, 7, 100, 4096})
		if len(stream) > 20000 && chunk == 1 {
			chunk = 1000
		}
		add(cfg, limit, end, chunk, ops, stream, s.tags)
	}
	// C04: every cut offset of a few scripted multi-message, multi-fragment streams
	ncut := 3
	if tier == "thorough" {
		ncut = 30
	}
	for i := 0; i < ncut; i++ {
		cfg := genCfg(r)
		ec := cfgFromKV(parseKV(cfg))
		libServer := ec.Role == "server"
		takeover := ec.Flate && ((libServer && !ec.Cnct && ec.Mode != "notakeover") || (!libServer && !ec.Snct))
		s := &sender{r: r, masked: libServer, flate: ec.Flate, takeover: takeover}
		var ops []string
		for m := 0; m < 3; m++ {
			compressed := ec.Flate && m != 1
			payload := Payload(GenField(r, 5+r.Intn(60)))
			s.message(byte(1+m%2), payload, compressed, r.PickS([]string{"random", "empty", "none"}), m == 2, flate.BestSpeed, false)
			ops = append(ops, "R", fmt.Sprintf("a%d", r.Pick([]int{1, 7, 512})))
		}
		ops = append(ops, "R")
		for cut := 0; cut <= len(s.out); cut++ {
			add(cfg, "default", r.PickS([]string{"eof", "fail"}), r.Pick([]int{0, 1, 3}), ops, s.out[:cut], []string{"cut-sweep"})
		}
	}
	// C04 / C03: the transport ends in the HEADER region of frames with every length encoding (7-bit, 16-bit, 64-bit), in every
	// order (a 16-bit length first on a fresh connection; after a 64-bit one; after a multiple of 256), every offset from the
	// frame's first byte to two bytes into its payload, both endings, both roles
	for _, role := range []string{"client", "server"} {
		for _, lens := range [][]int{{200}, {126, 300}, {70000, 300}, {512, 200}, {65535, 126}, {65536, 200}, {300, 70000}, {125, 127, 256}} {
			cfg := fmt.Sprintf("role=%s co=none mode=takeover thr=0", role)
			s := &sender{r: r, masked: role == "server"}
			var starts []int
			var ops []string
			for i, n := range lens {
				starts = append(starts, len(s.out))
				s.frame(rawFrame{Fin: true, Opcode: byte(1 + i%2), Payload: GenBytes("text", n, n+i)})
				ops = append(ops, "R", "A")
			}
			ops = append(ops, "R")
			for _, st := range starts {
				for cut := st; cut <= st+16 && cut <= len(s.out); cut++ {
					for _, end := range []string{"eof", "fail"} {
						add(cfg, "100000", end, 0, ops, s.out[:cut], []string{"header-cut-sweep"})
					}
				}
			}
		}
	}
	// context takeover across a BFINAL-terminated message: the same text is sent again and again, so every later message is made of
	// back-references into the earlier ones — also into the last bytes of a message whose DEFLATE stream ended with a final block
	for _, role := range []string{"client", "server"} {
		for _, rb := range []string{"A", "a1", "a7", "a512", "a4096"} {
			co := "00"
			cfg := fmt.Sprintf("role=%s co=%s mode=takeover thr=0", role, co)
			s := &sender{r: r, masked: role == "server", flate: true, takeover: true}
			text := GenBytes("text", 700, 77)
			var ops []string
			for m := 0; m < 5; m++ {
				// DefaultCompression: the level-1 encoder ignores a preset dictionary, so only levels >= 2 refer back across a fresh stream
				s.message(1, text[:300+100*m], true, r.PickS([]string{"none", "random"}), false, flate.DefaultCompression, m%2 == 0)
				ops = append(ops, "R", rb)
			}
			ops = append(ops, "R")
			add(cfg, "100000", "eof", 0, ops, s.out, []string{"bfinal-takeover-repeat"})
		}
	}
	return out
}

type replyRec struct {
	buf []byte
}

func runWireIn(kv map[string]string) string {
	cfg := cfgFromKV(kv)
	c, raw, err := newLibConn(cfg)
	if err != nil {
		return "dialerr=" + errClass(err)
	}
	chunk, _ := strconv.Atoi(kv["chunk"])
	raw.SetChunk(chunk)
	stream := Payload(kv["stream"])
	raw.Send(stream)
	if kv["end"] == "fail" {
		raw.End(errPipeFail)
	} else {
		raw.End(io.EOF)
	}
	done := make(chan []byte, 1)
	go func() { done <- raw.ReadAllUntilClosed() }()
	if kv["limit"] != "default" && kv["limit"] != "" {
		n, _ := strconv.ParseInt(kv["limit"], 10, 64)
		c.SetReadLimit(n)
	}
	ctx, cancel := context.WithTimeout(context.Background(), 60*time.Second)
	defer cancel()
	var obs []string
	faildata := "?"
	var rd io.Reader
	failed := false
	for _, op := range strings.Split(kv["ops"], ",") {
		if failed || op == "" {
			break
		}
		switch {
		case op == "R":
			typ, r, err := c.Reader(ctx)
			if err != nil {
				obs = append(obs, "R:err="+errClass(err))
				failed = true
			} else {
				obs = append(obs, fmt.Sprintf("R:%d", typ))
				rd = r
			}
		case op == "A" || op[0] == 'a' || op[0] == 'z':
			if rd == nil {
				continue
			}
			var data []byte
			var rerr error
			if op == "A" {
				data, rerr = io.ReadAll(rd)
			} else {
				n, _ := strconv.Atoi(op[1:])
				buf := make([]byte, n)
				for {
					if op[0] == 'z' {
						// a zero-length Read in the middle of a message is legal and must change nothing
						k0, e0 := rd.Read(buf[:0])
						if k0 != 0 {
							rerr = fmt.Errorf("zero-length read returned %d bytes", k0)
							break
						}
						if e0 == io.EOF {
							break
						}
						if e0 != nil {
							rerr = e0
							break
						}
					}
					k, e := rd.Read(buf)
					data = append(data, buf[:k]...)
					if e == io.EOF {
						break
					}
					if e != nil {
						rerr = e
						break
					}
				}
			}
			if debugErrs {
				h, t := data, data
				if len(h) > 48 {
					h, t = data[:48], data[len(data)-48:]
				}
				fmt.Fprintf(os.Stderr, "DEBUG data len=%d head=%x tail=%x\n", len(data), h, t)
			}
			if rerr != nil {
				obs = append(obs, fmt.Sprintf("M:%d:%s:err=%s", len(data), Fnv(data), errClass(rerr)))
				failed = true
				if len(data) <= 300000 {
					faildata = Hex(data)
				}
			} else {
				obs = append(obs, fmt.Sprintf("M:%d:%s:eof", len(data), Fnv(data)))
			}
			rd = nil
		case op[0] == 'L':
			n, _ := strconv.ParseInt(op[1:], 10, 64)
			c.SetReadLimit(n)
		}
	}
	c.CloseNow()
	var written []byte
	select {
	case written = <-done:
	case <-time.After(20 * time.Second):
		return "hang=drain"
	}
	fs, rest := parseRawFrames(written)
	var reps []string
	for _, f := range fs {
		reps = append(reps, fmt.Sprintf("%d:%s", f.Opcode, Hex(f.Payload)))
	}
	if len(rest) > 0 {
		reps = append(reps, "garbage:"+hex.EncodeToString(rest))
	}
	if len(reps) == 0 {
		reps = []string{"-"}
	}
	return fmt.Sprintf("obs=%s replies=%s faildata=%s", strings.Join(obs, ","), strings.Join(reps, ","), faildata)
}

var _ = websocket.MessageText
