module verifharness

go 1.21

require nhooyr.io/websocket v0.0.0

replace nhooyr.io/websocket => /repo
