package main

import (
	"context"
	"fmt"
	"io"
	"net/http"
	"net/url"
	"strconv"
	"strings"
	"sync"
	"time"

	"nhooyr.io/websocket"
)

// suite pair (C01, C14): two LIBRARY endpoints (Dial and Accept, real handshake negotiation) over an in-memory
// transport with a tap on each direction; each side runs a write program, the other side reads everything.
//   cmode=0|1|2 smode=0|1|2 cthr= sthr= progc=<ops> progs=<ops> rbuf=<n|A>
// Observation: ext=<negotiated Sec-WebSocket-Extensions response | none> c2s=<typ:len:fnv,...> s2c=<...>
//              keys=<hex of the client's mask keys in order> wc2s=<fnv of client->server wire> ws2c=<fnv> bufs=ok|modified

func init() {
	suites["pair"] = &Suite{Gen: genPair, Run: runPair, Parallel: 8}
}

type tapConn struct {
	*memConn
	mu  sync.Mutex
	log []byte
}

func (t *tapConn) Write(p []byte) (int, error) {
	t.mu.Lock()
	t.log = append(t.log, p...)
	t.mu.Unlock()
	return t.memConn.Write(p)
}

// pairRT performs the server side of the handshake with the real Accept on the other end of the transport.
type pairRT struct {
	server    *websocket.Conn
	sopts     *websocket.AcceptOptions
	cliConn   *tapConn
	srvConn   *tapConn
	respExt   string
	acceptErr error
}

func (rt *pairRT) RoundTrip(req *http.Request) (*http.Response, error) {
	w := &hijackRW{hdr: http.Header{}, conn: rt.srvConn}
	r := &http.Request{Method: "GET", Proto: "HTTP/1.1", ProtoMajor: 1, ProtoMinor: 1, Host: "example.com", URL: &url.URL{Path: "/"}, Header: req.Header.Clone()}
	c, err := websocket.Accept(w, r, rt.sopts)
	if err != nil {
		rt.acceptErr = err
		return &http.Response{StatusCode: w.code, Header: w.hdr, Body: io.NopCloser(strings.NewReader("")), Request: req}, nil
	}
	rt.server = c
	rt.respExt = w.hdr.Get("Sec-WebSocket-Extensions")
	return &http.Response{StatusCode: 101, Status: "101 Switching Protocols", Proto: "HTTP/1.1", ProtoMajor: 1, ProtoMinor: 1,
		Header: w.hdr, Body: rt.cliConn, Request: req}, nil
}

func newPair(cmode, smode websocket.CompressionMode, cthr, sthr int) (*websocket.Conn, *websocket.Conn, *pairRT, error) {
	h1, h2 := newHalf(), newHalf()
	cli := &tapConn{memConn: &memConn{in: h2, out: h1, closed: make(chan struct{})}}
	srv := &tapConn{memConn: &memConn{in: h1, out: h2, closed: make(chan struct{})}}
	rt := &pairRT{cliConn: cli, srvConn: srv, sopts: &websocket.AcceptOptions{CompressionMode: smode, CompressionThreshold: sthr}}
	ctx, cancel := context.WithTimeout(context.Background(), 10*time.Second)
	defer cancel()
	c, _, err := websocket.Dial(ctx, "ws://example.com/", &websocket.DialOptions{HTTPClient: &http.Client{Transport: rt}, CompressionMode: cmode, CompressionThreshold: cthr})
	if err != nil {
		return nil, nil, rt, err
	}
	pairConns.Store(c, cli)
	return c, rt.server, rt, nil
}

func genProg(r *Rng, big bool, budget int) string {
	nops := 1 + r.Intn(5)
	var ops []string
	for j := 0; j < nops; j++ {
		if r.Intn(3) > 0 {
			sz := pickSize(r, big)
			if sz > budget {
				sz = budget
			}
			budget -= sz
			ops = append(ops, fmt.Sprintf("W~%d~%s", 1+r.Intn(2), GenField(r, sz)))
		} else {
			nch := r.Intn(5)
			var chs []string
			for c := 0; c < nch; c++ {
				sz := pickSize(r, false)
				if r.Intn(3) == 0 {
					sz = r.Intn(8)
				}
				if sz > budget {
					sz = budget
				}
				budget -= sz
				chs = append(chs, GenField(r, sz))
			}
			ops = append(ops, fmt.Sprintf("S~%d~%s", 1+r.Intn(2), strings.Join(chs, ";")))
		}
	}
	return strings.Join(ops, "|")
}

func genPair(r *Rng, tier string, stat func(string)) []string {
	n := 150
	if tier == "thorough" {
		n = 3000
	}
	var out []string
	for i := 0; i < n; i++ {
		cm, sm := i%3, (i/3)%3
		cthr := r.Pick([]int{0, 0, 1, 64, 1000})
		sthr := r.Pick([]int{0, 0, 1, 64, 1000})
		big := i%50 == 7
		budget := 300000
		if big {
			budget = 1200000
		}
		pc, ps := genProg(r, big, budget), genProg(r, false, 200000)
		if big {
			pc = fmt.Sprintf("W~2~gen:rand:%d:%d|", 1048577+r.Intn(1000), r.Intn(1000)) + pc
		}
		if i%10 == 3 { // histories longer than the 32 KiB deflate window
			var ops []string
			for k := 0; k < 6; k++ {
				ops = append(ops, fmt.Sprintf("W~1~gen:text:%d:%d", 9000+r.Intn(3000), r.Intn(5)))
			}
			ps = strings.Join(ops, "|")
		}
		rbuf := r.PickS([]string{"A", "A", "1", "7", "512", "4096", "32768", "100000"})
		if big && rbuf == "1" {
			rbuf = "4096"
		}
		out = append(out, fmt.Sprintf("cmode=%d smode=%d cthr=%d sthr=%d rbuf=%s progc=%s progs=%s", cm, sm, cthr, sthr, rbuf, pc, ps))
		stat(fmt.Sprintf("modes:%d%d", cm, sm))
	}
	return out
}

func runProg(ctx context.Context, c *websocket.Conn, prog string) (bufok bool, err error) {
	bufok = true
	for _, op := range strings.Split(prog, "|") {
		f := strings.Split(op, "~")
		typ, _ := strconv.Atoi(f[1])
		switch f[0] {
		case "W":
			p := Payload(f[2])
			before := sum64(p)
			if err := c.Write(ctx, websocket.MessageType(typ), p); err != nil {
				return bufok, err
			}
			if sum64(p) != before {
				bufok = false
			}
		case "S":
			w, err := c.Writer(ctx, websocket.MessageType(typ))
			if err != nil {
				return bufok, err
			}
			if f[2] != "" {
				for _, ch := range strings.Split(f[2], ";") {
					p := Payload(ch)
					before := sum64(p)
					if _, err := w.Write(p); err != nil {
						return bufok, err
					}
					if sum64(p) != before {
						bufok = false
					}
				}
			}
			if err := w.Close(); err != nil {
				return bufok, err
			}
		}
	}
	return bufok, nil
}

func readN(ctx context.Context, c *websocket.Conn, n int, rbuf string) ([]string, error) {
	var out []string
	for i := 0; i < n; i++ {
		typ, r, err := c.Reader(ctx)
		if err != nil {
			return out, err
		}
		var data []byte
		if rbuf == "A" {
			data, err = io.ReadAll(r)
		} else {
			sz, _ := strconv.Atoi(rbuf)
			buf := make([]byte, sz)
			for {
				k, e := r.Read(buf)
				data = append(data, buf[:k]...)
				if e == io.EOF {
					break
				}
				if e != nil {
					err = e
					break
				}
			}
		}
		if err != nil {
			return out, err
		}
		out = append(out, fmt.Sprintf("%d:%d:%s", typ, len(data), Fnv(data)))
	}
	return out, nil
}

func runPair(kv map[string]string) string {
	cm, _ := strconv.Atoi(kv["cmode"])
	sm, _ := strconv.Atoi(kv["smode"])
	cthr, _ := strconv.Atoi(kv["cthr"])
	sthr, _ := strconv.Atoi(kv["sthr"])
	c, s, rt, err := newPair(websocket.CompressionMode(cm), websocket.CompressionMode(sm), cthr, sthr)
	if err != nil {
		return "dialerr=" + errClass(err)
	}
	c.SetReadLimit(-1)
	s.SetReadLimit(-1)
	ctx, cancel := context.WithTimeout(context.Background(), 120*time.Second)
	defer cancel()
	nc := len(strings.Split(kv["progc"], "|"))
	ns := len(strings.Split(kv["progs"], "|"))
	var wg sync.WaitGroup
	var c2s, s2c []string
	var e1, e2, e3, e4 error
	b1, b2 := true, true
	wg.Add(4)
	pb := &panicBox{onPanic: cancel}
	go func() { defer wg.Done(); defer pb.guard(); b1, e1 = runProg(ctx, c, kv["progc"]) }()
	go func() { defer wg.Done(); defer pb.guard(); b2, e2 = runProg(ctx, s, kv["progs"]) }()
	go func() { defer wg.Done(); defer pb.guard(); c2s, e3 = readN(ctx, s, nc, kv["rbuf"]) }()
	go func() { defer wg.Done(); defer pb.guard(); s2c, e4 = readN(ctx, c, ns, kv["rbuf"]) }()
	wg.Wait()
	c.CloseNow()
	s.CloseNow()
	if m := pb.get(); m != "" {
		return m
	}
	errs := fmt.Sprintf("%s,%s,%s,%s", errClass(e1), errClass(e2), errClass(e3), errClass(e4))
	rt.cliConn.mu.Lock()
	wc := append([]byte(nil), rt.cliConn.log...)
	rt.cliConn.mu.Unlock()
	rt.srvConn.mu.Lock()
	ws := append([]byte(nil), rt.srvConn.log...)
	rt.srvConn.mu.Unlock()
	fs, _ := parseRawFrames(wc)
	var keys []byte
	for _, f := range fs {
		keys = append(keys, f.Key[:]...)
	}
	ext := rt.respExt
	if ext == "" {
		ext = "none"
	}
	bufs := "ok"
	if !b1 || !b2 {
		bufs = "modified"
	}
	j := func(x []string) string {
		if len(x) == 0 {
			return "-"
		}
		return strings.Join(x, ",")
	}
	return fmt.Sprintf("ext=%s errs=%s c2s=%s s2c=%s keys=%s wc2s=%s ws2c=%s nc2s=%d ns2c=%d bufs=%s", strings.ReplaceAll(ext, " ", ""), errs, j(c2s), j(s2c), Hex(keys), Fnv(wc), Fnv(ws), len(wc), len(ws), bufs)
}
