package main

import (
	"context"
	"errors"
	"fmt"
	"io"
	"runtime"
	"strconv"
	"strings"
	"time"

	"nhooyr.io/websocket"
)

// suite pools (C07): SEQUENTIAL histories over several connections that share the library's pools, with GOMAXPROCS(1)
// so that sync.Pool hands a returned object straight to the next Get.  Every message payload is tagged with its
// connection, so a byte that crossed connections is visible.  The pool hooks record which object was taken / returned /
// read through, per connection.
//   hist=<op>|<op>...   op = open:<c>:<takeover 0|1> | msg:<c>:<n> | read:<c>:<k> | readall:<c> | again:<c> | closemid:<c>:<n> | closenow:<c> | plain:<c>:<n>
// Observation: per read op  <c>:<len>:<own 0|1>:<status>   ptrace=<c>:<ev>:<obj>,...

func init() {
	suites["pools"] = &Suite{Gen: genPools, Run: runPools, Parallel: 1}
}

func genPools(r *Rng, tier string, stat func(string)) []string {
	n := 250
	if tier == "thorough" {
		n = 6000
	}
	var out []string
	for i := 0; i < n; i++ {
		nc := 2 + r.Intn(2)
		var ops []string
		open := map[int]bool{}
		cur := map[int]bool{} // a reader is available on the connection
		steps := 6 + r.Intn(14)
		next := 0
		for s := 0; s < steps; s++ {
			c := r.Intn(nc)
			if !open[c] {
				ops = append(ops, fmt.Sprintf("open:%d:%d", c, r.Intn(2)))
				open[c] = true
				cur[c] = false
				continue
			}
			switch k := r.Intn(12); {
			case k < 4:
				ops = append(ops, fmt.Sprintf("msg:%d:%d", c, r.Pick([]int{40, 600, 5000, 40000})))
				cur[c] = true
			case k < 6 && cur[c]:
				ops = append(ops, fmt.Sprintf("read:%d:%d", c, r.Pick([]int{1, 16, 64, 1000})))
			case k < 8 && cur[c]:
				ops = append(ops, fmt.Sprintf("readall:%d", c))
			case k < 10 && cur[c]:
				ops = append(ops, fmt.Sprintf("again:%d", c))
				stat("again")
			case k == 10:
				ops = append(ops, fmt.Sprintf("closemid:%d:%d", c, 3000))
				open[c] = false
				stat("closemid")
			default:
				if r.Intn(3) == 0 {
					ops = append(ops, fmt.Sprintf("plain:%d:%d", c, 100))
					cur[c] = true
				} else {
					ops = append(ops, fmt.Sprintf("closenow:%d", c))
					open[c] = false
					stat("closenow")
				}
			}
			next++
		}
		out = append(out, "hist="+strings.Join(ops, "|"))
	}
	// the historical witness: A reads a compressed message to its end, B starts one, A reads again
	out = append(out, "hist=open:0:1|open:1:1|msg:0:600|readall:0|msg:1:600|again:0|readall:1")
	// a small compressed message left after a prefix, an uncompressed one, another compressed one, and B in between
	out = append(out, "hist=open:0:1|open:1:1|msg:0:40|read:0:1|plainnf:0:100|readall:0|msgnf:0:600|read:0:16|msg:1:600|readall:1|readall:0")
	out = append(out, "hist=open:0:0|open:1:0|msg:0:40|read:0:1|plainnf:0:100|read:0:10|msgnf:0:40|read:0:1|msg:1:40|readall:1|readall:0|msgnf:0:600|msg:1:600|readall:0|readall:1")
	// writers: a message abandoned half-way on A, then B and A write; A is closed under its writer, B writes again
	out = append(out, "hist=open:0:0|open:1:0|wmsg:0:600|wmsg:1:600|wpart:0:5000|wmsg:1:700|closenow:0|wmsg:1:800|open:0:1|wmsg:0:900|wmsg:1:900")
	out = append(out, "hist=open:0:1|open:1:1|open:2:0|wmsg:0:600|wmsg:1:600|wmsg:2:600|wmsg:0:40000|wpart:1:600|wmsg:2:700|closenow:1|wmsg:0:700|wmsg:2:700")
	out = append(out, "hist=open:0:0|open:1:0|msg:0:600|readall:0|msg:1:40000|read:1:64|again:0|again:0|readall:1|again:1")
	return out
}

func poolTag(c, m int) []byte { return []byte(fmt.Sprintf("c%dm%03d_", c, m)) }

func poolPayload(c, m, n int) []byte {
	t := poolTag(c, m)
	p := make([]byte, n)
	for i := range p {
		p[i] = t[i%len(t)]
	}
	return p
}

// ownBytes: every byte is consistent with the tag pattern of connection c (any message of c, any offset)
func ownBytes(c int, b []byte) bool {
	if len(b) == 0 {
		return true
	}
	want := fmt.Sprintf("c%dm", c)
	s := string(b)
	// find the pattern phase: look for "c<digit>m" occurrences; all must be of connection c
	for i := 0; i+3 <= len(s); i++ {
		if s[i] == 'c' && s[i+1] >= '0' && s[i+1] <= '9' && s[i+2] == 'm' {
			if s[i:i+3] != want {
				return false
			}
		}
	}
	return true
}

type poolConn struct {
	c      *websocket.Conn
	raw    *rawEnd
	snd    *sender
	rd     io.Reader
	nmsg   int
	closed bool
	wopen  bool // a Writer was left unfinished: further writes on this connection would block
}

func runPools(kv map[string]string) string {
	old := runtime.GOMAXPROCS(1)
	defer runtime.GOMAXPROCS(old)
	websocket.VerifPoolTraceOn()
	ctx, cancel := context.WithTimeout(context.Background(), 30*time.Second)
	defer cancel()
	conns := map[int]*poolConn{}
	var obs []string
	var ptr []string
	objs := map[uintptr]int{}
	mark := 0
	flushTrace := func(c int) {
		tr := websocket.VerifPoolTraceGet()
		for _, e := range tr[mark:] {
			if e.Kind != websocket.VerifKindFlateReader && e.Kind != websocket.VerifKindFlateWriter {
				continue
			}
			id, ok := objs[e.Obj]
			if !ok {
				id = len(objs) + 1
				objs[e.Obj] = id
			}
			if e.Obj == 0 {
				id = 0 // limitReader.r is not a flate reader
			}
			if e.Kind == websocket.VerifKindFlateWriter {
				// the write side of connection c is a holder of its own: virtual connection c+100
				ptr = append(ptr, fmt.Sprintf("%d:%d:%d", c+100, e.Ev, id))
			} else {
				ptr = append(ptr, fmt.Sprintf("%d:%d:%d", c, e.Ev, id))
			}
		}
		mark = len(tr)
	}
	status := func(err error) string {
		switch {
		case err == nil:
			return "more"
		case err == io.EOF:
			return "eof"
		}
		var ce websocket.CloseError
		if errors.As(err, &ce) {
			return "close"
		}
		return "err"
	}
	for _, op := range strings.Split(kv["hist"], "|") {
		f := strings.Split(op, ":")
		ci, _ := strconv.Atoi(f[1])
		pc := conns[ci]
		switch f[0] {
		case "open":
			tk := f[2] == "1"
			cfg := EndpointCfg{Role: "server", Flate: true, Cnct: !tk, Snct: true, Mode: "takeover"}
			c, raw, err := newLibConn(cfg)
			if err != nil {
				return "dialerr=" + errClass(err)
			}
			c.SetReadLimit(-1)
			conns[ci] = &poolConn{c: c, raw: raw, snd: &sender{r: NewRng(uint64(ci + 1)), masked: true, flate: true, takeover: tk}}
			go raw.ReadAllUntilClosed()
		case "msg", "plain", "msgnf", "plainnf":
			if pc == nil || pc.closed {
				continue
			}
			n, _ := strconv.Atoi(f[2])
			pc.snd.out = nil
			pc.snd.message(2, poolPayload(ci, pc.nmsg, n), strings.HasPrefix(f[0], "msg"), "random", false, 1, false)
			pc.nmsg++
			pc.raw.Send(pc.snd.out)
			nofinish := strings.HasSuffix(f[0], "nf")
			if nofinish && pc.rd != nil {
				// try the next Reader straight away; if the library insists on the previous message being finished, do that
				_, rd, err := pc.c.Reader(ctx)
				if err == nil {
					obs = append(obs, fmt.Sprintf("%d:next-without-finishing", ci))
					pc.rd = rd
					flushTrace(ci)
					continue
				}
			}
			if pc.rd != nil {
				// the previous message was abandoned: finish it first, as the API requires (its bytes are checked too)
				b, err := io.ReadAll(pc.rd)
				obs = append(obs, fmt.Sprintf("%d:%d:%v:%s", ci, len(b), ownBytes(ci, b), status(err)))
				if err != nil {
					pc.rd = nil
					flushTrace(ci)
					continue
				}
			}
			_, rd, err := pc.c.Reader(ctx)
			if err != nil {
				obs = append(obs, fmt.Sprintf("%d:reader:%s", ci, status(err)))
				pc.rd = nil
			} else {
				pc.rd = rd
			}
		case "read", "readall", "again":
			if pc == nil || pc.rd == nil {
				continue
			}
			var b []byte
			var err error
			switch f[0] {
			case "read":
				k, _ := strconv.Atoi(f[2])
				buf := make([]byte, k)
				var n int
				n, err = pc.rd.Read(buf)
				b = buf[:n]
			case "readall":
				b, err = io.ReadAll(pc.rd)
				if err == nil {
					err = io.EOF
				}
			case "again":
				buf := make([]byte, 64)
				var n int
				n, err = pc.rd.Read(buf)
				b = buf[:n]
			}
			obs = append(obs, fmt.Sprintf("%d:%d:%v:%s", ci, len(b), ownBytes(ci, b), status(err)))
		case "wmsg", "wpart":
			if pc == nil || pc.closed || pc.wopen {
				continue
			}
			n, _ := strconv.Atoi(f[2])
			wctx, wcancel := context.WithTimeout(ctx, 5*time.Second)
			if f[0] == "wmsg" {
				err := pc.c.Write(wctx, websocket.MessageBinary, poolPayload(ci, 900+pc.nmsg, n))
				obs = append(obs, fmt.Sprintf("%d:w:%s", ci, status(err)))
			} else {
				// a streamed message that is never finished: its flate.Writer stays with the connection until it is closed
				w, err := pc.c.Writer(wctx, websocket.MessageBinary)
				if err == nil {
					_, err = w.Write(poolPayload(ci, 900+pc.nmsg, n))
				}
				obs = append(obs, fmt.Sprintf("%d:wp:%s", ci, status(err)))
				pc.wopen = true
			}
			wcancel()
			pc.nmsg++
		case "closemid":
			if pc == nil || pc.closed {
				continue
			}
			n, _ := strconv.Atoi(f[2])
			z := pc.snd.compress(poolPayload(ci, pc.nmsg, n), 1, false)
			pc.nmsg++
			pc.snd.out = nil
			if pc.rd != nil {
				b, err := io.ReadAll(pc.rd)
				obs = append(obs, fmt.Sprintf("%d:%d:%v:%s", ci, len(b), ownBytes(ci, b), status(err)))
				pc.rd = nil
				if err != nil {
					flushTrace(ci)
					continue
				}
			}
			pc.snd.frame(rawFrame{Fin: false, Rsv1: true, Opcode: 2, Payload: z[:len(z)/2], DeclLen: -1})
			pc.snd.control(8, []byte{0x03, 0xe8})
			pc.raw.Send(pc.snd.out)
			_, rd, err := pc.c.Reader(ctx)
			if err == nil {
				b, e2 := io.ReadAll(rd)
				obs = append(obs, fmt.Sprintf("%d:%d:%v:%s", ci, len(b), ownBytes(ci, b), status(e2)))
			} else {
				obs = append(obs, fmt.Sprintf("%d:reader:%s", ci, status(err)))
			}
			pc.closed = true
			pc.rd = nil
		case "closenow":
			if pc == nil || pc.closed {
				continue
			}
			pc.c.CloseNow()
			pc.closed = true
			// a read on the abandoned reader after the close must fail, not deliver somebody else's bytes
			if pc.rd != nil {
				buf := make([]byte, 64)
				n, err := pc.rd.Read(buf)
				obs = append(obs, fmt.Sprintf("%d:%d:%v:%s", ci, n, ownBytes(ci, buf[:n]), status(err)))
				pc.rd = nil
			}
		}
		flushTrace(ci)
	}
	for _, pc := range conns {
		if !pc.closed {
			pc.c.CloseNow()
		}
	}
	if len(obs) == 0 {
		obs = []string{"-"}
	}
	if len(ptr) == 0 {
		ptr = []string{"-"}
	}
	return fmt.Sprintf("obs=%s ptrace=%s", strings.Join(obs, ","), strings.Join(ptr, ","))
}
