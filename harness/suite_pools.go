package main

import (
	"bytes"
	"compress/flate"
	"context"
	"errors"
	"fmt"
	"io"
	"runtime"
	"strconv"
	"strings"
	"time"

	"nhooyr.io/websocket"
)

// suite pools (C07): SEQUENTIAL histories over several connections that share the library's pools, with GOMAXPROCS(1)
// so that sync.Pool hands a returned object straight to the next Get.  Every message payload is tagged with its
// connection, so a byte that crossed connections is visible.  The pool hooks record which object was taken / returned /
// read through, per connection.
//   hist=<op>|<op>...   op = open:<c>:<takeover 0|1>[:<role s|c>] | probe:<c>:<kind 0|1> | wfail:<c>:<n> | msg:<c>:<n> | read:<c>:<k> | readall:<c> | again:<c> | closemid:<c>:<n> | closenow:<c> | plain:<c>:<n>
// Observation: per read op  <c>:<len>:<own 0|1>:<status>   ptrace=<c>:<ev>:<obj>,...

func init() {
	suites["pools"] = &Suite{Gen: genPools, Run: runPools, Parallel: 1}
}

func genPools(r *Rng, tier string, stat func(string)) []string {
	n := 250
	if tier == "thorough" {
		n = 6000
	}
	var out []string
	for i := 0; i < n; i++ {
		nc := 2 + r.Intn(2)
		var ops []string
		open := map[int]bool{}
		cur := map[int]bool{} // a reader is available on the connection
		steps := 6 + r.Intn(14)
		next := 0
		for s := 0; s < steps; s++ {
			c := r.Intn(nc)
			if !open[c] {
				role := "s"
				if r.Intn(3) == 0 {
					role = "c"
					stat("open:client")
				}
				ops = append(ops, fmt.Sprintf("open:%d:%d:%s", c, r.Intn(2), role))
				open[c] = true
				cur[c] = false
				if r.Intn(6) == 0 {
					// a read limit below some of the messages that follow: their reads fail in the middle of a compressed message
					ops = append(ops, fmt.Sprintf("limit:%d:%d", c, r.Pick([]int{100, 4096, 20000})))
					stat("limit")
					continue
				}
				if r.Intn(4) == 0 {
					// the first compressed message of the new connection refers back beyond its own start
					ops = append(ops, fmt.Sprintf("probe:%d:%d", c, r.Intn(2)))
					open[c] = false
					stat("probe")
				}
				continue
			}
			switch k := r.Intn(12); {
			case k < 4:
				ops = append(ops, fmt.Sprintf("msg:%d:%d", c, r.Pick([]int{40, 600, 5000, 40000})))
				cur[c] = true
			case k < 6 && cur[c]:
				ops = append(ops, fmt.Sprintf("read:%d:%d", c, r.Pick([]int{1, 16, 64, 1000})))
			case k < 8 && cur[c]:
				ops = append(ops, fmt.Sprintf("readall:%d", c))
			case k < 10 && cur[c]:
				ops = append(ops, fmt.Sprintf("again:%d", c))
				stat("again")
			case k == 10:
				ops = append(ops, fmt.Sprintf("closemid:%d:%d", c, 3000))
				open[c] = false
				stat("closemid")
			default:
				if k3 := r.Intn(4); k3 == 0 {
					ops = append(ops, fmt.Sprintf("plain:%d:%d", c, 100))
					cur[c] = true
				} else if k3 == 1 {
					// the transport fails under the last frame of a compressed message: the connection goes away in the middle of Write
					ops = append(ops, fmt.Sprintf("wfail:%d:%d", c, r.Pick([]int{600, 5000})))
					open[c] = false
					stat("wfail")
				} else {
					ops = append(ops, fmt.Sprintf("closenow:%d", c))
					open[c] = false
					stat("closenow")
				}
			}
			next++
		}
		out = append(out, "hist="+strings.Join(ops, "|"))
	}
	// the historical witness: A reads a compressed message to its end, B starts one, A reads again
	out = append(out, "hist=open:0:1|open:1:1|msg:0:600|readall:0|msg:1:600|again:0|readall:1")
	// a small compressed message left after a prefix, an uncompressed one, another compressed one, and B in between
	out = append(out, "hist=open:0:1|open:1:1|msg:0:40|read:0:1|plainnf:0:100|readall:0|msgnf:0:600|read:0:16|msg:1:600|readall:1|readall:0")
	out = append(out, "hist=open:0:0|open:1:0|msg:0:40|read:0:1|plainnf:0:100|read:0:10|msgnf:0:40|read:0:1|msg:1:40|readall:1|readall:0|msgnf:0:600|msg:1:600|readall:0|readall:1")
	// writers: a message abandoned half-way on A, then B and A write; A is closed under its writer, B writes again
	out = append(out, "hist=open:0:0|open:1:0|wmsg:0:600|wmsg:1:600|wpart:0:5000|wmsg:1:700|closenow:0|wmsg:1:800|open:0:1|wmsg:0:900|wmsg:1:900")
	out = append(out, "hist=open:0:1|open:1:1|open:2:0|wmsg:0:600|wmsg:1:600|wmsg:2:600|wmsg:0:40000|wpart:1:600|wmsg:2:700|closenow:1|wmsg:0:700|wmsg:2:700")
	out = append(out, "hist=open:0:0|open:1:0|msg:0:600|readall:0|msg:1:40000|read:1:64|again:0|again:0|readall:1|again:1")
	// a connection is closed after compressed traffic; the next one (same window size, fresh pools) opens with a back-reference
	// that reaches before its own first byte: nothing may come out of it
	for _, role := range []string{"s", "c"} {
		for k := 0; k < 2; k++ {
			out = append(out, fmt.Sprintf("hist=open:0:1:%s|msg:0:40000|readall:0|closenow:0|open:1:1:%s|probe:1:%d", role, role, k))
			out = append(out, fmt.Sprintf("hist=open:0:1:%s|msg:0:600|readall:0|msg:0:5000|read:0:16|closenow:0|open:1:1:%s|probe:1:%d", role, role, k))
			out = append(out, fmt.Sprintf("hist=open:0:0:%s|msg:0:600|readall:0|closenow:0|open:1:0:%s|probe:1:%d", role, role, k))
		}
		// a write that fails on its last frame, then two new connections stream at the same time: each has a compressor of its own
		for tk := 0; tk < 2; tk++ {
			out = append(out, fmt.Sprintf("hist=open:0:%d:%s|wfail:0:600|open:1:%d:%s|open:2:%d:%s|wpart:1:600|wpart:2:600|wmsg:0:600", tk, role, tk, role, tk, role))
			out = append(out, fmt.Sprintf("hist=open:0:%d:%s|wmsg:0:600|wfail:0:5000|open:1:%d:%s|wmsg:1:600|open:2:%d:%s|wpart:2:600|wpart:1:600|closenow:1|closenow:2|open:0:%d:%s|wmsg:0:700", tk, role, tk, role, tk, role, tk, role))
		}
		// the read limit trips in the middle of a compressed message, the connection is closed; the next two connections read
		// compressed messages alternately, each in pieces: every buffered reader belongs to one connection at a time
		for tk := 0; tk < 2; tk++ {
			for _, lim := range []int{100, 4096} {
				out = append(out, fmt.Sprintf("hist=open:0:%d:%s|limit:0:%d|msg:0:40000|readall:0|open:1:%d:%s|open:2:%d:%s|msg:1:5000|read:1:16|msg:2:5000|read:2:16|readall:1|readall:2|msg:1:600|msg:2:600|read:1:64|read:2:64|readall:1|readall:2", tk, role, lim, tk, role, tk, role))
				out = append(out, fmt.Sprintf("hist=open:0:%d:%s|msg:0:600|readall:0|limit:0:%d|msg:0:5000|read:0:1000|readall:0|open:1:%d:%s|msg:1:40000|read:1:1000|open:2:%d:c|msg:2:40000|read:2:1000|readall:1|readall:2", tk, role, lim, tk, role, tk))
			}
		}
		// client connections recycle their bufio reader and writer: B, opened after A went away, talks to its own peer
		out = append(out, fmt.Sprintf("hist=open:0:1:c|wmsg:0:600|msg:0:600|readall:0|closenow:0|open:1:1:%s|wmsg:1:700|msg:1:600|readall:1|open:2:0:c|wmsg:2:100|wmsg:1:100|msg:2:40|readall:2", role))
	}
	return out
}

// bitPacker writes a raw deflate stream by hand (the encoder of compress/flate never refers before the start of its input).
type bitPacker struct {
	out  []byte
	acc  uint64
	nacc uint
}

func (b *bitPacker) bits(v uint64, n uint) { // LSB first (header fields, extra bits)
	b.acc |= v << b.nacc
	b.nacc += n
	for b.nacc >= 8 {
		b.out = append(b.out, byte(b.acc))
		b.acc >>= 8
		b.nacc -= 8
	}
}

func (b *bitPacker) huff(code uint64, n uint) { // Huffman codes go out most significant bit first
	for i := int(n) - 1; i >= 0; i-- {
		b.bits((code>>uint(i))&1, 1)
	}
}

func (b *bitPacker) flush() []byte {
	if b.nacc > 0 {
		b.bits(0, 8-b.nacc)
	}
	return b.out
}

// probeMessage is the payload of a compressed message (RFC 7692: the trailing 00 00 ff ff removed) made of one
// fixed-Huffman block holding a single match that reaches before the first byte of the stream:
// kind 0: length 3, distance 1;  kind 1: length 258, distance 32768.
func probeMessage(kind int) []byte {
	var b bitPacker
	b.bits(0, 1) // BFINAL
	b.bits(1, 2) // BTYPE fixed
	if kind == 0 {
		b.huff(1, 7) // 257: length 3
		b.huff(0, 5) // distance code 0: 1
	} else {
		b.huff(0xc0+5, 8) // 285: length 258
		b.huff(29, 5)     // distance code 29: 24577 + 13 extra bits
		b.bits(8191, 13)
	}
	b.huff(0, 7) // end of block
	b.bits(0, 3) // empty stored block, not final
	return b.flush()
}

func init() {
	// the hand-made streams are what they claim to be: with a dictionary in place they inflate to copies of its bytes
	for kind, want := range []int{3, 258} {
		d := make([]byte, 32768)
		for i := range d {
			d[i] = 'Q'
		}
		z := append(probeMessage(kind), 0, 0, 0xff, 0xff, 1, 0, 0, 0xff, 0xff)
		got, err := io.ReadAll(flate.NewReaderDict(bytes.NewReader(z), d))
		if err != nil || len(got) != want || got[0] != 'Q' {
			panic(fmt.Sprintf("probeMessage(%d): %d bytes, %v", kind, len(got), err))
		}
		_, err = io.ReadAll(flate.NewReader(bytes.NewReader(z)))
		if err == nil {
			panic("probeMessage: accepted without history")
		}
	}
}

func poolTag(c, m int) []byte { return []byte(fmt.Sprintf("c%dm%03d_", c, m)) }

func poolPayload(c, m, n int) []byte {
	t := poolTag(c, m)
	p := make([]byte, n)
	for i := range p {
		p[i] = t[i%len(t)]
	}
	return p
}

// ownBytes: every byte is consistent with the tag pattern of connection c (any message of c, any offset)
func ownBytes(c int, b []byte) bool {
	if len(b) == 0 {
		return true
	}
	want := fmt.Sprintf("c%dm", c)
	s := string(b)
	// find the pattern phase: look for "c<digit>m" occurrences; all must be of connection c
	for i := 0; i+3 <= len(s); i++ {
		if s[i] == 'c' && s[i+1] >= '0' && s[i+1] <= '9' && s[i+2] == 'm' {
			if s[i:i+3] != want {
				return false
			}
		}
	}
	return true
}

type poolConn struct {
	c      *websocket.Conn
	raw    *rawEnd
	snd    *sender
	rd     io.Reader
	nmsg   int
	closed bool
	wopen  bool // a Writer was left unfinished: further writes on this connection would block
	limit  bool // a read limit was set: a message above it fails its read (then the connection is closed at once)
}

func runPools(kv map[string]string) string {
	old := runtime.GOMAXPROCS(1)
	defer runtime.GOMAXPROCS(old)
	websocket.VerifPoolTraceOn()
	ctx, cancel := context.WithTimeout(context.Background(), 30*time.Second)
	defer cancel()
	conns := map[int]*poolConn{}
	var obs []string
	var ptr []string
	objs := map[uintptr]int{}
	mark := 0
	flushTrace := func(c int) {
		tr := websocket.VerifPoolTraceGet()
		for _, e := range tr[mark:] {
			if e.Kind != websocket.VerifKindFlateReader && e.Kind != websocket.VerifKindFlateWriter {
				continue
			}
			id, ok := objs[e.Obj]
			if !ok {
				id = len(objs) + 1
				objs[e.Obj] = id
			}
			if e.Obj == 0 {
				id = 0 // limitReader.r is not a flate reader
			}
			if e.Kind == websocket.VerifKindFlateWriter {
				// the write side of connection c is a holder of its own: virtual connection c+100
				ptr = append(ptr, fmt.Sprintf("%d:%d:%d", c+100, e.Ev, id))
			} else {
				ptr = append(ptr, fmt.Sprintf("%d:%d:%d", c, e.Ev, id))
			}
		}
		mark = len(tr)
	}
	status := func(err error) string {
		switch {
		case err == nil:
			return "more"
		case err == io.EOF:
			return "eof"
		}
		var ce websocket.CloseError
		if errors.As(err, &ce) {
			return "close"
		}
		return "err"
	}
	for _, op := range strings.Split(kv["hist"], "|") {
		f := strings.Split(op, ":")
		ci, _ := strconv.Atoi(f[1])
		pc := conns[ci]
		switch f[0] {
		case "open":
			tk := f[2] == "1"
			cfg := EndpointCfg{Role: "server", Flate: true, Cnct: !tk, Snct: true, Mode: "takeover"}
			if len(f) > 3 && f[3] == "c" {
				// the library reads what the server sends: server_no_context_takeover decides its window
				cfg = EndpointCfg{Role: "client", Flate: true, Cnct: true, Snct: !tk, Mode: "takeover"}
			}
			if old := conns[ci]; old != nil && !old.closed {
				old.c.CloseNow()
			}
			c, raw, err := newLibConn(cfg)
			if err != nil {
				return "dialerr=" + errClass(err)
			}
			c.SetReadLimit(-1)
			conns[ci] = &poolConn{c: c, raw: raw, snd: &sender{r: NewRng(uint64(ci + 1)), masked: cfg.Role == "server", flate: true, takeover: tk}}
			go raw.ReadAllUntilClosed()
		case "limit":
			if pc == nil || pc.closed {
				continue
			}
			n, _ := strconv.Atoi(f[2])
			pc.c.SetReadLimit(int64(n))
			pc.limit = true
		case "probe":
			if pc == nil || pc.closed || pc.nmsg > 0 {
				continue
			}
			kind, _ := strconv.Atoi(f[2])
			pc.snd.out = nil
			pc.snd.frame(rawFrame{Fin: true, Rsv1: true, Opcode: 2, Payload: probeMessage(kind), DeclLen: -1})
			pc.raw.Send(pc.snd.out)
			_, rd, err := pc.c.Reader(ctx)
			var b []byte
			if err == nil {
				b, err = io.ReadAll(rd)
			}
			// whatever came out was never sent on this connection (nothing was)
			obs = append(obs, fmt.Sprintf("%d:probe:%d:%s", ci, len(b), status(err)))
			pc.c.CloseNow()
			pc.closed = true
			pc.rd = nil
		case "msg", "plain", "msgnf", "plainnf":
			if pc == nil || pc.closed {
				continue
			}
			n, _ := strconv.Atoi(f[2])
			pc.snd.out = nil
			pc.snd.message(2, poolPayload(ci, pc.nmsg, n), strings.HasPrefix(f[0], "msg"), "random", false, 1, false)
			pc.nmsg++
			pc.raw.Send(pc.snd.out)
			nofinish := strings.HasSuffix(f[0], "nf")
			if nofinish && pc.rd != nil {
				// try the next Reader straight away; if the library insists on the previous message being finished, do that
				_, rd, err := pc.c.Reader(ctx)
				if err == nil {
					obs = append(obs, fmt.Sprintf("%d:next-without-finishing", ci))
					pc.rd = rd
					flushTrace(ci)
					continue
				}
			}
			if pc.rd != nil {
				// the previous message was abandoned: finish it first, as the API requires (its bytes are checked too)
				b, err := io.ReadAll(pc.rd)
				obs = append(obs, fmt.Sprintf("%d:%d:%v:%s", ci, len(b), ownBytes(ci, b), status(err)))
				if err != nil {
					if pc.limit && !pc.closed {
						pc.c.CloseNow()
						pc.closed = true
					}
					pc.rd = nil
					flushTrace(ci)
					continue
				}
			}
			_, rd, err := pc.c.Reader(ctx)
			if err != nil {
				obs = append(obs, fmt.Sprintf("%d:reader:%s", ci, status(err)))
				pc.rd = nil
			} else {
				pc.rd = rd
			}
		case "read", "readall", "again":
			if pc == nil || pc.rd == nil {
				continue
			}
			var b []byte
			var err error
			switch f[0] {
			case "read":
				k, _ := strconv.Atoi(f[2])
				buf := make([]byte, k)
				var n int
				n, err = pc.rd.Read(buf)
				b = buf[:n]
			case "readall":
				b, err = io.ReadAll(pc.rd)
				if err == nil {
					err = io.EOF
				}
			case "again":
				buf := make([]byte, 64)
				var n int
				n, err = pc.rd.Read(buf)
				b = buf[:n]
			}
			obs = append(obs, fmt.Sprintf("%d:%d:%v:%s", ci, len(b), ownBytes(ci, b), status(err)))
			if status(err) == "err" && pc.limit && !pc.closed {
				// the message was above the read limit of this connection: the library has answered 1009; the application closes
				pc.c.CloseNow()
				pc.closed = true
				pc.rd = nil
				flushTrace(ci)
				continue
			}
			if status(err) == "err" && !pc.closed {
				// nothing was wrong on this connection: complete, well-formed messages, no close, no cancellation
				obs = append(obs, fmt.Sprintf("%d:unexpected-error:%s", ci, f[0]))
				pc.rd = nil
			}
		case "wmsg", "wpart":
			if pc == nil || pc.closed || pc.wopen {
				continue
			}
			n, _ := strconv.Atoi(f[2])
			wctx, wcancel := context.WithTimeout(ctx, 5*time.Second)
			if f[0] == "wmsg" {
				before := map[int]int{}
				for k, o := range conns {
					before[k] = o.raw.Written()
				}
				err := pc.c.Write(wctx, websocket.MessageBinary, poolPayload(ci, 900+pc.nmsg, n))
				obs = append(obs, fmt.Sprintf("%d:w:%s", ci, status(err)))
				// a finished message has been flushed to the transport of this connection and to no other
				for k, o := range conns {
					grew := o.raw.Written() > before[k]
					if (k == ci && err == nil && !grew) || (k != ci && grew) {
						obs = append(obs, fmt.Sprintf("%d:write-misrouted:%d", ci, k))
					}
				}
				if err != nil {
					obs = append(obs, fmt.Sprintf("%d:unexpected-error:wmsg", ci))
				}
			} else {
				// a streamed message that is never finished: its flate.Writer stays with the connection until it is closed
				w, err := pc.c.Writer(wctx, websocket.MessageBinary)
				if err == nil {
					_, err = w.Write(poolPayload(ci, 900+pc.nmsg, n))
				}
				obs = append(obs, fmt.Sprintf("%d:wp:%s", ci, status(err)))
				pc.wopen = true
			}
			wcancel()
			pc.nmsg++
		case "wfail":
			if pc == nil || pc.closed || pc.wopen {
				continue
			}
			n, _ := strconv.Atoi(f[2])
			pc.raw.RefuseWrites()
			wctx, wcancel := context.WithTimeout(ctx, 5*time.Second)
			err := pc.c.Write(wctx, websocket.MessageBinary, poolPayload(ci, 900+pc.nmsg, n))
			wcancel()
			obs = append(obs, fmt.Sprintf("%d:wf:%s", ci, status(err)))
			pc.c.CloseNow()
			pc.closed = true
			pc.rd = nil
		case "closemid":
			if pc == nil || pc.closed {
				continue
			}
			n, _ := strconv.Atoi(f[2])
			z := pc.snd.compress(poolPayload(ci, pc.nmsg, n), 1, false)
			pc.nmsg++
			pc.snd.out = nil
			if pc.rd != nil {
				b, err := io.ReadAll(pc.rd)
				obs = append(obs, fmt.Sprintf("%d:%d:%v:%s", ci, len(b), ownBytes(ci, b), status(err)))
				pc.rd = nil
				if err != nil {
					flushTrace(ci)
					continue
				}
			}
			pc.snd.frame(rawFrame{Fin: false, Rsv1: true, Opcode: 2, Payload: z[:len(z)/2], DeclLen: -1})
			pc.snd.control(8, []byte{0x03, 0xe8})
			pc.raw.Send(pc.snd.out)
			_, rd, err := pc.c.Reader(ctx)
			if err == nil {
				b, e2 := io.ReadAll(rd)
				obs = append(obs, fmt.Sprintf("%d:%d:%v:%s", ci, len(b), ownBytes(ci, b), status(e2)))
			} else {
				obs = append(obs, fmt.Sprintf("%d:reader:%s", ci, status(err)))
			}
			pc.closed = true
			pc.rd = nil
		case "closenow":
			if pc == nil || pc.closed {
				continue
			}
			pc.c.CloseNow()
			pc.closed = true
			// a read on the abandoned reader after the close must fail, not deliver somebody else's bytes
			if pc.rd != nil {
				buf := make([]byte, 64)
				n, err := pc.rd.Read(buf)
				obs = append(obs, fmt.Sprintf("%d:%d:%v:%s", ci, n, ownBytes(ci, buf[:n]), status(err)))
				pc.rd = nil
			}
		}
		flushTrace(ci)
	}
	for _, pc := range conns {
		if !pc.closed {
			pc.c.CloseNow()
		}
	}
	if len(obs) == 0 {
		obs = []string{"-"}
	}
	if len(ptr) == 0 {
		ptr = []string{"-"}
	}
	return fmt.Sprintf("obs=%s ptrace=%s", strings.Join(obs, ","), strings.Join(ptr, ","))
}
