package main

import (
	"context"
	"fmt"
	"net/http"
	"time"

	"nhooyr.io/websocket"
)

// suite hs-pair (C13, C11, C14): the real Dial against the real Accept over an in-memory transport — the composition
// the theorem C13_lib_lib_handshake is about: client subprotocol lists (clean names, and names with commas, spaces,
// case variants) x server lists x 3x3 compression modes x origin patterns on the server (Dial sends no Origin).
//   csubs=<hex,...|-> ssubs=<hex,...|-> cmode= smode= pats=<hex,...|->
// Observation: ok=<0|1> csub=<hex of client.Subprotocol()> ssub=<hex of server.Subprotocol()> cco= sco=  (negotiated options per end)

func init() {
	suites["hs-pair"] = &Suite{Gen: genHsPair, Run: runHsPair, Parallel: 8}
}

func genHsPair(r *Rng, tier string, stat func(string)) []string {
	clean := [][]string{nil, {"chat"}, {"chat", "superchat"}, {"superchat", "chat"}, {"CHAT"}, {"a", "b", "c"}, {"v1.json", "v2.json", "V3.JSON"}, {"x-y_z", "k"}}
	unclean := [][]string{{"a,b"}, {" chat"}, {"chat "}, {"chat", ""}, {"", "chat"}, {"a, b", "c"}, {"chat\t"}, {","}, {" "}}
	server := [][]string{nil, {"chat"}, {"superchat", "chat"}, {"Chat"}, {"z"}, {"c", "b"}, {"V2.JSON"}, {"b"}, {"k", "x-y_z"}, {""}, {"a,b"}}
	var out []string
	n := 300
	if tier == "thorough" {
		n = 5000
	}
	for i := 0; i < n; i++ {
		cs := clean[r.Intn(len(clean))]
		kind := "clean"
		if r.Intn(5) == 0 {
			cs = unclean[r.Intn(len(unclean))]
			kind = "unclean"
		}
		stat("csubs:" + kind)
		ss := server[r.Intn(len(server))]
		pats := patternPool[r.Intn(len(patternPool))]
		out = append(out, fmt.Sprintf("csubs=%s ssubs=%s cmode=%d smode=%d pats=%s", encList(cs), encList(ss), i%3, (i/3)%3, encList(pats)))
	}
	return out
}

func runHsPair(kv map[string]string) string {
	var cm, sm int
	fmt.Sscanf(kv["cmode"], "%d", &cm)
	fmt.Sscanf(kv["smode"], "%d", &sm)
	h1, h2 := newHalf(), newHalf()
	cli := &tapConn{memConn: &memConn{in: h2, out: h1, closed: make(chan struct{})}}
	srv := &tapConn{memConn: &memConn{in: h1, out: h2, closed: make(chan struct{})}}
	rt := &pairRT{cliConn: cli, srvConn: srv, sopts: &websocket.AcceptOptions{CompressionMode: websocket.CompressionMode(sm),
		Subprotocols: decList(kv["ssubs"]), OriginPatterns: decList(kv["pats"])}}
	ctx, cancel := context.WithTimeout(context.Background(), 10*time.Second)
	defer cancel()
	c, _, err := websocket.Dial(ctx, "ws://example.com/", &websocket.DialOptions{HTTPClient: &http.Client{Transport: rt},
		CompressionMode: websocket.CompressionMode(cm), Subprotocols: decList(kv["csubs"])})
	if err != nil {
		if rt.server != nil {
			rt.server.CloseNow()
		}
		accepted := 0
		if rt.acceptErr == nil && rt.server != nil {
			accepted = 1
		}
		return fmt.Sprintf("ok=0 accepted=%d", accepted)
	}
	defer c.CloseNow()
	defer rt.server.CloseNow()
	return fmt.Sprintf("ok=1 accepted=1 csub=%s ssub=%s cco=%s sco=%s", hx(c.Subprotocol()), hx(rt.server.Subprotocol()),
		websocket.VerifCopts(c), websocket.VerifCopts(rt.server))
}
