package main

import (
	"encoding/hex"
	"fmt"
	"strconv"
	"strings"
)

// Rng is the single source of randomness of a run (splitmix64); every case derives from it.
type Rng struct{ s uint64 }

func NewRng(seed uint64) *Rng { return &Rng{s: seed*0x9E3779B97F4A7C15 + 0x1234567} }
func (r *Rng) U64() uint64 {
	r.s += 0x9E3779B97F4A7C15
	z := r.s
	z = (z ^ (z >> 30)) * 0xBF58476D1CE4E5B9
	z = (z ^ (z >> 27)) * 0x94D049BB133111EB
	return z ^ (z >> 31)
}
func (r *Rng) Intn(n int) int {
	if n <= 0 {
		return 0
	}
	return int(r.U64() % uint64(n))
}
func (r *Rng) Bool() bool               { return r.U64()&1 == 1 }
func (r *Rng) Pick(xs []int) int        { return xs[r.Intn(len(xs))] }
func (r *Rng) PickS(xs []string) string { return xs[r.Intn(len(xs))] }

// GenBytes is the payload generator shared with ocaml/util.ml (xorshift64).
func GenBytes(kind string, n int, seed int) []byte {
	x := uint64(seed)*0x9E3779B97F4A7C15 | 1
	next := func() int {
		x ^= x << 13
		x ^= x >> 7
		x ^= x << 17
		return int((x >> 32) & 0xff)
	}
	out := make([]byte, 0, n+16)
	switch kind {
	case "rand":
		for i := 0; i < n; i++ {
			out = append(out, byte(next()))
		}
	case "const":
		c := byte(next())
		for i := 0; i < n; i++ {
			out = append(out, c)
		}
	case "text":
		words := []string{"the ", "websocket ", "frame ", "payload ", "{\"k\":", "12345", "},", "hello ", "world "}
		for len(out) < n {
			out = append(out, words[next()%len(words)]...)
		}
		out = out[:n]
	case "period":
		p := 1 + next()%7
		base := make([]byte, p)
		for i := range base {
			base[i] = byte(next())
		}
		for i := 0; i < n; i++ {
			out = append(out, base[i%p])
		}
	default:
		panic("unknown gen kind " + kind)
	}
	return out
}

// Payload expands a payload field: "-" | hex | gen:<kind>:<len>:<seed>.
func Payload(f string) []byte {
	if strings.HasPrefix(f, "gen:") {
		p := strings.Split(f, ":")
		n, _ := strconv.Atoi(p[2])
		s, _ := strconv.Atoi(p[3])
		return GenBytes(p[1], n, s)
	}
	if f == "-" {
		return nil
	}
	b, err := hex.DecodeString(f)
	if err != nil {
		panic(err)
	}
	return b
}

func Hex(b []byte) string {
	if len(b) == 0 {
		return "-"
	}
	return hex.EncodeToString(b)
}

// Fnv is FNV-1a 64 as 16 hex digits (same as ocaml/util.ml).
func Fnv(b []byte) string {
	h := uint64(0xcbf29ce484222325)
	for _, c := range b {
		h ^= uint64(c)
		h *= 0x100000001b3
	}
	return fmt.Sprintf("%016x", h)
}

// GenField picks a payload description of the given length.
func GenField(r *Rng, n int) string {
	if n == 0 {
		return "-"
	}
	if n <= 24 && r.Intn(3) == 0 {
		b := make([]byte, n)
		for i := range b {
			b[i] = byte(r.U64())
		}
		return hex.EncodeToString(b)
	}
	kinds := []string{"rand", "text", "const", "period"}
	return fmt.Sprintf("gen:%s:%d:%d", kinds[r.Intn(len(kinds))], n, r.Intn(1<<30))
}
