package main

import (
	"errors"
	"io"
	"net"
	"sync"
	"time"
)

// halfPipe is one direction of an in-memory transport: unbounded buffer, scripted read chunking,
// scripted ending (EOF or failure), optional "never drains" mode for the reader side.
type halfPipe struct {
	mu      sync.Mutex
	cond    *sync.Cond
	buf     []byte
	total   int    // bytes ever written
	wclosed bool   // writer finished: reads return endErr once the buffer is drained
	endErr  error  // io.EOF or a failure
	rclosed bool   // reader side closed: reads fail immediately, writes fail
	chunk   int    // max bytes per Read (0 = unlimited)
	stall   bool   // writes block forever (zero receive window) until closed
	maxBuf  int    // when >0, writes block while len(buf) >= maxBuf
	hook    func() // called at the start of every Write (schedule perturbation)
}

func newHalf() *halfPipe {
	h := &halfPipe{}
	h.cond = sync.NewCond(&h.mu)
	return h
}

var errPipeClosed = errors.New("memconn: use of closed connection")
var errPipeFail = errors.New("memconn: transport failure")

func (h *halfPipe) Write(p []byte) (int, error) {
	if h.hook != nil {
		h.hook()
	}
	h.mu.Lock()
	defer h.mu.Unlock()
	for (h.stall || (h.maxBuf > 0 && len(h.buf) >= h.maxBuf)) && !h.rclosed && !h.wclosed {
		h.cond.Wait()
	}
	if h.rclosed || h.wclosed {
		return 0, errPipeClosed
	}
	h.buf = append(h.buf, p...)
	h.total += len(p)
	h.cond.Broadcast()
	return len(p), nil
}

func (h *halfPipe) Read(p []byte) (int, error) {
	h.mu.Lock()
	defer h.mu.Unlock()
	for len(h.buf) == 0 && !h.wclosed && !h.rclosed {
		h.cond.Wait()
	}
	if h.rclosed {
		return 0, errPipeClosed
	}
	if len(h.buf) == 0 {
		return 0, h.endErr
	}
	n := len(p)
	if n > len(h.buf) {
		n = len(h.buf)
	}
	if h.chunk > 0 && n > h.chunk {
		n = h.chunk
	}
	copy(p, h.buf[:n])
	h.buf = h.buf[n:]
	h.cond.Broadcast()
	return n, nil
}

// finish ends the writer side: pending bytes are still delivered, then reads return err.
func (h *halfPipe) finish(err error) {
	h.mu.Lock()
	if !h.wclosed {
		h.wclosed = true
		h.endErr = err
	}
	h.cond.Broadcast()
	h.mu.Unlock()
}

func (h *halfPipe) closeRead() {
	h.mu.Lock()
	h.rclosed = true
	h.cond.Broadcast()
	h.mu.Unlock()
}

// memConn is the library's end of the transport (net.Conn so that Accept's hijack path works).
type memConn struct {
	in, out *halfPipe // in: peer -> library ; out: library -> peer
	closed  chan struct{}
	once    sync.Once
}

func (c *memConn) Read(p []byte) (int, error)  { return c.in.Read(p) }
func (c *memConn) Write(p []byte) (int, error) { return c.out.Write(p) }
func (c *memConn) Close() error {
	c.once.Do(func() {
		close(c.closed)
		c.in.closeRead()
		c.out.finish(io.EOF)
	})
	return nil
}
func (c *memConn) LocalAddr() net.Addr                { return memAddr{} }
func (c *memConn) RemoteAddr() net.Addr               { return memAddr{} }
func (c *memConn) SetDeadline(t time.Time) error      { return nil }
func (c *memConn) SetReadDeadline(t time.Time) error  { return nil }
func (c *memConn) SetWriteDeadline(t time.Time) error { return nil }

type memAddr struct{}

func (memAddr) Network() string { return "mem" }
func (memAddr) String() string  { return "mem" }

// rawEnd is the harness's end: it writes bytes the library will read and reads what the library wrote.
type rawEnd struct {
	c *memConn
}

func newTransport() (*memConn, *rawEnd) {
	c := &memConn{in: newHalf(), out: newHalf(), closed: make(chan struct{})}
	return c, &rawEnd{c: c}
}

func (r *rawEnd) Send(p []byte)              { r.c.in.Write(p) }
func (r *rawEnd) End(err error)              { r.c.in.finish(err) }
func (r *rawEnd) Read(p []byte) (int, error) { return r.c.out.Read(p) }
func (r *rawEnd) LibClosed() <-chan struct{} { return r.c.closed }
func (r *rawEnd) RefuseWrites()              { r.c.out.closeRead() } // the library's next write to the transport fails
func (r *rawEnd) Written() int               { r.c.out.mu.Lock(); defer r.c.out.mu.Unlock(); return r.c.out.total }
func (r *rawEnd) SetChunk(n int)             { r.c.in.mu.Lock(); r.c.in.chunk = n; r.c.in.mu.Unlock() }
func (r *rawEnd) Stall(on bool) {
	r.c.out.mu.Lock()
	r.c.out.stall = on
	r.c.out.cond.Broadcast()
	r.c.out.mu.Unlock()
}

// ReadAllUntilClosed drains everything the library writes until the library closes the transport.
func (r *rawEnd) ReadAllUntilClosed() []byte {
	var all []byte
	buf := make([]byte, 65536)
	for {
		n, err := r.Read(buf)
		all = append(all, buf[:n]...)
		if err != nil {
			return all
		}
	}
}
