package main

import (
	"compress/flate"
	"fmt"
	"strings"
)

// suites agree-in / agree-out (C14): after a handshake that agreed on permessage-deflate with every combination of the two
// no_context_takeover flags — the asymmetric ones included, which two endpoints of this library never negotiate with each
// other — a reference peer that applies the agreed parameters exchanges several compressed messages with the library endpoint.
// The messages repeat one text, so with context takeover every later message is made of back-references into the earlier ones:
// an endpoint that consults the wrong side's flag in one direction cannot decode (agree-in) or cannot be decoded (agree-out).
// The case lines, runners, model runners and comparers are those of wire-in and wire-out.

func init() {
	suites["agree-in"] = &Suite{Gen: genAgreeIn, Run: runWireIn, Parallel: 8}
	suites["agree-out"] = &Suite{Gen: genAgreeOut, Run: runWireOut, Parallel: 8}
}

func agreeCfgs() []string {
	var out []string
	for _, role := range []string{"client", "server"} {
		for _, co := range []string{"00", "01", "10", "11"} {
			out = append(out, fmt.Sprintf("role=%s co=%s mode=takeover", role, co))
		}
		out = append(out, fmt.Sprintf("role=%s co=11 mode=notakeover", role))
	}
	return out
}

func genAgreeIn(r *Rng, tier string, stat func(string)) []string {
	rounds := 4
	if tier == "thorough" {
		rounds = 40
	}
	var out []string
	for round := 0; round < rounds; round++ {
		for _, c := range agreeCfgs() {
			cfg := c + " thr=0"
			ec := cfgFromKV(parseKV(cfg))
			libServer := ec.Role == "server"
			// the flag that governs the PEER's sending direction
			takeover := (libServer && !ec.Cnct) || (!libServer && !ec.Snct)
			s := &sender{r: r, masked: libServer, flate: true, takeover: takeover}
			text := GenBytes("text", 900, 100+round)
			nmsg := 3 + r.Intn(3)
			var ops []string
			for m := 0; m < nmsg; m++ {
				n := 200 + r.Intn(600)
				compressed := !(round%4 == 3 && m == 1) // now and then a plain message in between
				// DefaultCompression: the level-1 encoder ignores a preset dictionary
				s.message(byte(1+m%2), text[:n], compressed, r.PickS([]string{"none", "random", "empty"}), r.Intn(4) == 0, flate.DefaultCompression, false)
				ops = append(ops, "R", r.PickS([]string{"A", "a7", "a512", "a4096"}))
			}
			ops = append(ops, "R")
			chunk := r.Pick([]int{0, 0, 7, 4096})
			out = append(out, fmt.Sprintf("%s limit=default end=eof chunk=%d ops=%s stream=%s", cfg, chunk, strings.Join(ops, ","), Hex(s.out)))
			stat("cfg:" + ec.Role + "," + parseKV(cfg)["co"] + "," + ec.Mode)
			stat(fmt.Sprintf("peer-takeover:%v", takeover))
		}
	}
	return out
}

func genAgreeOut(r *Rng, tier string, stat func(string)) []string {
	rounds := 3
	if tier == "thorough" {
		rounds = 30
	}
	var out []string
	for round := 0; round < rounds; round++ {
		for _, c := range agreeCfgs() {
			cfg := fmt.Sprintf("%s thr=%d", c, r.Pick([]int{0, 1, 64}))
			n := 300 + r.Intn(500)
			field := fmt.Sprintf("gen:text:%d:%d", n, 200+round)
			var ops []string
			for m := 0; m < 3+r.Intn(2); m++ {
				if r.Intn(3) == 0 {
					ops = append(ops, fmt.Sprintf("S~%d~%s;%s", 1+m%2, field, field))
				} else {
					ops = append(ops, fmt.Sprintf("W~%d~%s", 1+m%2, field))
				}
				if r.Intn(4) == 0 {
					ops = append(ops, "P")
				}
			}
			ops = append(ops, "C~1000~")
			out = append(out, cfg+" prog="+strings.Join(ops, "|"))
			kv := parseKV(cfg)
			stat("cfg:" + kv["role"] + "," + kv["co"] + "," + kv["mode"])
		}
	}
	return out
}
