package main

import (
	"fmt"
	"runtime"
	"strconv"
	"strings"

	"nhooyr.io/websocket"
)

// suite window (C07): the pooled sliding windows (compress.go swPool / slidingWindow.init / write / close) driven directly,
// the way msgReader drives them, by several "connections" of one process, with GOMAXPROCS(1) so that sync.Pool hands a
// returned array straight to the next taker.
//   cap=<n> hist=<op>|<op>...    op = get:<c> | w:<c>:<len> | put:<c>
// Observation per op: <array index>:<dict length>:<dict fnv>:<array fnv>:<z | k[hex of the array when first seen] | d>   (array index: arrays numbered in order of first
// appearance; the model replays the pool's choice from it).  Bytes written by op number k on connection c:
// GenBytes("rand", len, 1000*c+k+1) — never the zero bytes of a new array.

func init() {
	suites["window"] = &Suite{Gen: genWindow, Run: runWindow, Parallel: 1}
}

func genWindow(r *Rng, tier string, stat func(string)) []string {
	n := 240
	if tier == "thorough" {
		n = 4000
	}
	var out []string
	for i := 0; i < n; i++ {
		cp := r.Pick([]int{4, 8, 16, 64, 64, 32768})
		lens := []int{0, 1, 2, cp - 1, cp, cp + 1, 2*cp + 3, cp / 2, cp/2 + 1}
		if cp == 32768 {
			lens = []int{0, 1, 100, 5000, 32767, 32768, 32769, 40000, 16384, 20000}
		}
		nc := 2 + r.Intn(2)
		held := map[int]bool{}
		var ops []string
		steps := 6 + r.Intn(16)
		for s := 0; s < steps; s++ {
			c := r.Intn(nc)
			switch k := r.Intn(10); {
			case !held[c] || k == 0:
				ops = append(ops, fmt.Sprintf("get:%d", c)) // also on a held window: init is then a no-op
				held[c] = true
			case k < 7:
				ops = append(ops, fmt.Sprintf("w:%d:%d", c, r.Pick(lens)))
			default:
				ops = append(ops, fmt.Sprintf("put:%d", c))
				held[c] = false
			}
		}
		stat(fmt.Sprintf("cap:%d", cp))
		out = append(out, fmt.Sprintf("cap=%d hist=%s", cp, strings.Join(ops, "|")))
	}
	// one connection fills its window and leaves; the next one takes the same array
	for _, cp := range []int{8, 32768} {
		out = append(out, fmt.Sprintf("cap=%d hist=get:0|w:0:%d|put:0|get:1|w:1:3|get:0|w:0:1|put:1|get:2", cp, cp+5))
		out = append(out, fmt.Sprintf("cap=%d hist=get:0|w:0:%d|w:0:%d|put:0|get:1|put:1|get:0|w:0:%d", cp, cp/2, cp/2+1, cp-1))
	}
	return out
}

func windowBytes(c, k, n int) []byte {
	b := GenBytes("rand", n, 1000*c+k+1)
	for i := range b {
		if b[i] == 0 {
			b[i] = 0xa5
		}
	}
	return b
}

func runWindow(kv map[string]string) string {
	old := runtime.GOMAXPROCS(1)
	defer runtime.GOMAXPROCS(old)
	cp, _ := strconv.Atoi(kv["cap"])
	wins := map[int]*websocket.VerifWindow{}
	var keep []*websocket.VerifWindow // every array stays alive for the whole case: an address names one array
	ids := map[uintptr]int{}
	dirty := map[int]bool{} // the array came out of the pool with contents of an earlier case: only its visible part is compared
	known := map[int]bool{}
	first := ""
	var obs []string
	for k, op := range strings.Split(kv["hist"], "|") {
		f := strings.Split(op, ":")
		c, _ := strconv.Atoi(f[1])
		w := wins[c]
		switch f[0] {
		case "get":
			if w == nil {
				w = websocket.VerifWindowNew()
				wins[c] = w
				keep = append(keep, w)
			}
			w.Init(cp)
		case "w":
			if w == nil {
				obs = append(obs, "skip")
				continue
			}
			n, _ := strconv.Atoi(f[2])
			w.Write(windowBytes(c, k, n))
		case "put":
			if w == nil {
				obs = append(obs, "skip")
				continue
			}
			w.Put()
			delete(wins, c)
			obs = append(obs, "put")
			continue
		}
		id, ok := ids[w.ArrayID()]
		if !ok {
			id = len(ids) + 1
			ids[w.ArrayID()] = id
			for _, x := range w.Array() {
				if x != 0 {
					dirty[id] = true
				}
			}
			if dirty[id] && cp <= 64 {
				// the pool kept this array from an earlier case: the model starts with it in its pool, with these contents
				first = "k" + Hex(w.Array())
				known[id] = true
			}
		}
		d := w.Dict()
		flag := "z"
		if known[id] {
			flag = "k"
		} else if dirty[id] {
			flag = "d"
		}
		if first != "" {
			flag, first = first, ""
		}
		obs = append(obs, fmt.Sprintf("%d:%d:%s:%s:%s", id, len(d), Fnv(d), Fnv(w.Array()), flag))
	}
	for _, w := range wins {
		w.Put()
	}
	return "obs=" + strings.Join(obs, ",")
}
