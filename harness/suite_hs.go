package main

import (
	"context"
	"encoding/base64"
	"encoding/hex"
	"fmt"
	"io"
	"net/http"
	"net/url"
	"reflect"
	"sort"
	"strconv"
	"strings"
	"time"

	"nhooyr.io/websocket"
)

// suites hs-accept (C11, C12, C14 server side) and hs-dial (C13, C14 client side): the real Accept / Dial on
// synthetic requests / scripted responses; headers travel as key~hex(value) lists (canonical keys).

func init() {
	suites["hs-accept"] = &Suite{Gen: genHsAccept, Run: runHsAccept, Parallel: 16}
	suites["hs-dial"] = &Suite{Gen: genHsDial, Run: runHsDial, Parallel: 16}
}

func hx(s string) string { return Hex([]byte(s)) }

func encHdrs(h [][2]string) string {
	if len(h) == 0 {
		return "-"
	}
	var xs []string
	for _, kv := range h {
		xs = append(xs, kv[0]+"~"+hx(kv[1]))
	}
	return strings.Join(xs, "|")
}

func decHdrs(s string) http.Header {
	h := http.Header{}
	if s == "-" || s == "" {
		return h
	}
	for _, x := range strings.Split(s, "|") {
		i := strings.IndexByte(x, '~')
		h[x[:i]] = append(h[x[:i]], string(Payload(x[i+1:])))
	}
	return h
}

func encList(xs []string) string {
	if len(xs) == 0 {
		return "-"
	}
	var o []string
	for _, x := range xs {
		o = append(o, hx(x))
	}
	return strings.Join(o, ",")
}

func decList(s string) []string {
	if s == "-" || s == "" {
		return nil
	}
	var o []string
	for _, x := range strings.Split(s, ",") {
		o = append(o, string(Payload(x)))
	}
	return o
}

var goodKey = "dGhlIHNhbXBsZSBub25jZQ=="

var extOffers = []string{
	"permessage-deflate", "permessage-deflate; client_no_context_takeover", "permessage-deflate; server_no_context_takeover",
	"permessage-deflate; client_no_context_takeover; server_no_context_takeover", "permessage-deflate; client_max_window_bits",
	"permessage-deflate; client_max_window_bits=15", "permessage-deflate; client_max_window_bits=8", "permessage-deflate; client_max_window_bits=7",
	"permessage-deflate; client_max_window_bits=16", "permessage-deflate; client_max_window_bits=abc", "permessage-deflate; client_max_window_bits=",
	"permessage-deflate; client_max_window_bits=08", "permessage-deflate; server_max_window_bits=15", "permessage-deflate; server_max_window_bits=14",
	"permessage-deflate; server_max_window_bits=8", "permessage-deflate; server_max_window_bits", "permessage-deflate; server_max_window_bits=abc",
	"permessage-deflate; client_no_context_takeover; client_no_context_takeover", "permessage-deflate; client_max_window_bits; client_max_window_bits=10",
	"permessage-deflate; server_no_context_takeover; server_no_context_takeover", "permessage-deflate; meow", "permessage-deflate; client_no_context_takeover=1",
	"Permessage-Deflate", "permessage-deflate;client_no_context_takeover", "permessage-deflate ; server_no_context_takeover ",
	"x-webkit-deflate-frame", "foo; bar=1", "", "permessage-deflate; server_max_window_bits=15; client_max_window_bits=12; server_no_context_takeover",
}

var originPool = []string{"", "http://example.com", "https://example.com", "https://EXAMPLE.com", "http://example.com:80", "https://example.com:443", "https://example.com.evil.io",
	"https://evilexample.com", "https://sub.example.com", "https://evil.com/example.com", "https://evil.com?example.com", "https://evil.com#example.com",
	"https://example.com@evil.com", "https://evil.com@example.com", "https://user:pw@example.com", "null", "example.com", "//example.com", "http:example.com",
	"http:/example.com", "https://exa mple.com", "https://ex%41mple.com", "https://[::1]", "https://[::1]:80", "https://example.com:x", "ws://example.com",
	"https://example.org", "https://app.example.org", "https://app.example.org.evil.io", "HTTPS://APP.EXAMPLE.ORG", "https://xexample.org", "https://example.com/", "https://a/b@example.com",
	"https://Kexample.com", "https://eſample.com", "http://%zz", "http://example.com\x00", " https://example.com", "https://example.com ", "https://example.com:", "file:///etc/passwd", "https://", "https:///example.com",
	"https://evil.com?.example.org", "https://evil.com#.example.org", "https://evil.com?x=https://app.example.org", "https://evil.com/.example.org", "https://evil.com#https://example.org"}

// patterns that carry a scheme: the library matches patterns against the origin's HOST only, so none of these may ever authorise anything
var schemePatternPool = [][]string{{"https://*.example.org"}, {"https://example.org"}, {"*://*.example.org"}, {"https://*"}, {"http*://*example.org"}}

var patternPool = [][]string{nil, {"example.org"}, {"*.example.org"}, {"*"}, {"app.example.org", "example.*"}, {"["}, {"example.org", "["}, {"[", "example.org"},
	{"EXAMPLE.ORG"}, {"*.example.org", "example.org"}, {"app.exa?ple.org"}, {"app.[a-z]xample.org"}, {"*example.org"}, {"\\*.example.org"}, {"evil.com"}, {"*.com"}, {"sub.*.com"}}

func genHsAccept(r *Rng, tier string, stat func(string)) []string {
	var out []string
	methods := []string{"GET", "GET", "GET", "POST", "get", "HEAD", ""}
	protos := []string{"1.1", "1.1", "1.1", "1.0", "2.0", "0.9", "1.2"}
	conns := [][]string{{"Upgrade"}, {"upgrade"}, {"keep-alive, Upgrade"}, {"keep-alive", "Upgrade"}, {"UPGRADE"}, {" upgrade , x"}, {"keep-alive"}, {}, {""}, {"upgrade2"}, {"Up grade"}, {"x,,upgrade"}}
	upgs := [][]string{{"websocket"}, {"WebSocket"}, {"h2c, websocket"}, {"h2c", "websocket"}, {"websocket/13"}, {"h2c"}, {}, {""}, {"websocket"}, {"webſocket"}}
	vers := [][]string{{"13"}, {"13"}, {"13"}, {"12"}, {"13, 8"}, {"8", "13"}, {"13", "8"}, {}, {""}, {" 13"}}
	k15 := base64.StdEncoding.EncodeToString(make([]byte, 15))
	k17 := base64.StdEncoding.EncodeToString(make([]byte, 17))
	keys := [][]string{{goodKey}, {goodKey}, {goodKey}, {"x3JJHMbDL1EzLkh9GBhXDw=="}, {}, {goodKey, goodKey}, {k15}, {k17}, {"not base64!!"}, {"dGhlIHNhbXBsZSBub25jZQ"}, {" " + goodKey + " "},
		{"dGhlIHNhbXBs\nZSBub25jZQ=="}, {""}, {"dGhlIHNhbXBsZSBub25jZR=="}, {goodKey + "="}}
	offered := [][]string{{}, {"chat"}, {"chat, superchat"}, {"superchat", "chat"}, {"CHAT"}, {"a,b,c"}, {""}, {"chat,"}, {" x "}}
	supported := [][]string{nil, {"chat"}, {"superchat", "chat"}, {"Chat"}, {"z"}, {"c", "b"}, {""}}
	n := 2500
	if tier == "thorough" {
		n = 60000
	}
	pick := func(xs [][]string, bias int) []string {
		if r.Intn(bias) > 0 {
			return xs[0]
		}
		return xs[r.Intn(len(xs))]
	}
	for i := 0; i < n; i++ {
		bias := 4 // mostly valid, a few fields mutated
		if i%3 == 0 {
			bias = 1
		}
		var hdrs [][2]string
		for _, v := range pick(conns, bias) {
			hdrs = append(hdrs, [2]string{"Connection", v})
		}
		for _, v := range pick(upgs, bias) {
			hdrs = append(hdrs, [2]string{"Upgrade", v})
		}
		for _, v := range pick(vers, bias) {
			hdrs = append(hdrs, [2]string{"Sec-Websocket-Version", v})
		}
		for _, v := range pick(keys, bias) {
			hdrs = append(hdrs, [2]string{"Sec-Websocket-Key", v})
		}
		for _, v := range offered[r.Intn(len(offered))] {
			hdrs = append(hdrs, [2]string{"Sec-Websocket-Protocol", v})
		}
		ne := r.Intn(4)
		if i%2 == 0 {
			var offers []string
			for k := 0; k < ne; k++ {
				offers = append(offers, extOffers[r.Intn(len(extOffers))])
			}
			if len(offers) > 0 {
				if r.Bool() {
					hdrs = append(hdrs, [2]string{"Sec-Websocket-Extensions", strings.Join(offers, ", ")})
				} else {
					for _, o := range offers {
						hdrs = append(hdrs, [2]string{"Sec-Websocket-Extensions", o})
					}
				}
			}
		}
		host := r.PickS([]string{"example.com", "example.com", "EXAMPLE.COM", "example.com:80", "[::1]", "kexample.com", "esample.com", ""})
		if r.Intn(3) > 0 {
			o := originPool[r.Intn(len(originPool))]
			if o != "" || r.Intn(4) == 0 {
				hdrs = append(hdrs, [2]string{"Origin", o})
			}
		}
		m := "GET"
		p := "1.1"
		if r.Intn(bias*2) == 0 {
			m = methods[r.Intn(len(methods))]
		}
		if r.Intn(bias*2) == 0 {
			p = protos[r.Intn(len(protos))]
		}
		skip := 0
		if r.Intn(8) == 0 {
			skip = 1
		}
		out = append(out, fmt.Sprintf("method=%s proto=%s host=%s hdrs=%s subs=%s skip=%d pats=%s mode=%d",
			hx(m), p, hx(host), encHdrs(hdrs), encList(supported[r.Intn(len(supported))]), skip, encList(patternPool[r.Intn(len(patternPool))]), r.Intn(3)))
	}
	// systematic: every origin x every pattern set against a valid request; every single offer x 3 modes
	valid := [][2]string{{"Connection", "Upgrade"}, {"Upgrade", "websocket"}, {"Sec-Websocket-Version", "13"}, {"Sec-Websocket-Key", goodKey}}
	for _, o := range originPool {
		for pi, ps := range patternPool {
			if tier != "thorough" && pi%3 != len(o)%3 {
				continue
			}
			h := append(append([][2]string(nil), valid...), [2]string{"Origin", o})
			out = append(out, fmt.Sprintf("method=%s proto=1.1 host=%s hdrs=%s subs=- skip=0 pats=%s mode=0", hx("GET"), hx("example.com"), encHdrs(h), encList(ps)))
			stat("origin-grid")
		}
	}
	for _, sub := range []string{"-", encList([]string{"chat"})} {
		for mode := 0; mode < 3; mode++ {
			h := append(append([][2]string(nil), valid...), [2]string{"Sec-Websocket-Protocol", "chat"}, [2]string{"Sec-Websocket-Extensions", "permessage-deflate"})
			out = append(out, fmt.Sprintf("method=%s proto=1.1 host=%s hdrs=%s subs=%s skip=0 pats=- mode=%d nohijack=1", hx("GET"), hx("example.com"), encHdrs(h), sub, mode))
			out = append(out, fmt.Sprintf("method=%s proto=1.1 host=%s hdrs=%s subs=%s skip=0 pats=- mode=%d nohijack=1", hx("POST"), hx("example.com"), encHdrs(h), sub, mode))
			stat("non-hijackable-writer")
		}
	}
	for _, o := range originPool {
		for _, ps := range schemePatternPool {
			h := append(append([][2]string(nil), valid...), [2]string{"Origin", o})
			out = append(out, fmt.Sprintf("method=%s proto=1.1 host=%s hdrs=%s subs=- skip=0 pats=%s mode=0", hx("GET"), hx("example.com"), encHdrs(h), encList(ps)))
			stat("origin-scheme-patterns")
		}
	}
	for _, e := range extOffers {
		for mode := 0; mode < 3; mode++ {
			h := append(append([][2]string(nil), valid...), [2]string{"Sec-Websocket-Extensions", e})
			out = append(out, fmt.Sprintf("method=%s proto=1.1 host=%s hdrs=%s subs=- skip=0 pats=- mode=%d", hx("GET"), hx("example.com"), encHdrs(h), mode))
			stat("offer-grid")
		}
	}
	stat("random")
	return out
}

func runHsAccept(kv map[string]string) string {
	lib, _ := newTransport()
	w := &hijackRW{hdr: http.Header{}, conn: lib}
	var maj, min int
	fmt.Sscanf(kv["proto"], "%d.%d", &maj, &min)
	r := &http.Request{Method: string(Payload(kv["method"])), Proto: "HTTP/" + kv["proto"], ProtoMajor: maj, ProtoMinor: min,
		Host: string(Payload(kv["host"])), URL: &url.URL{Path: "/"}, Header: decHdrs(kv["hdrs"])}
	skip := kv["skip"] == "1"
	mode, _ := strconv.Atoi(kv["mode"])
	var rw http.ResponseWriter = w
	if kv["nohijack"] == "1" {
		// a ResponseWriter that cannot be hijacked (a handler behind http.TimeoutHandler, say): nothing may be upgraded, and the
		// client must be told so with an error status — never 101
		rw = struct{ http.ResponseWriter }{w}
	}
	c, err := websocket.Accept(rw, r, &websocket.AcceptOptions{Subprotocols: decList(kv["subs"]), InsecureSkipVerify: skip,
		OriginPatterns: decList(kv["pats"]), CompressionMode: websocket.CompressionMode(mode)})
	status := w.code
	hij := 0
	if w.did {
		hij = 1
	}
	if err == nil {
		sub := c.Subprotocol()
		co := websocket.VerifCopts(c)
		c.CloseNow()
		return fmt.Sprintf("status=%d hijacked=%d accept=%s proto=%s ext=%s connproto=%s co=%s", status, hij, hx(w.hdr.Get("Sec-WebSocket-Accept")), hx(w.hdr.Get("Sec-WebSocket-Protocol")),
			hx(w.hdr.Get("Sec-WebSocket-Extensions")), hx(sub), co)
	}
	return fmt.Sprintf("status=%d hijacked=%d accept=- proto=- ext=- connproto=- co=-", status, hij)
}

// ---------------------------------------------------------------------------------------------

var extResponses = []string{"", "permessage-deflate", "permessage-deflate; client_no_context_takeover", "permessage-deflate; server_no_context_takeover",
	"permessage-deflate; server_no_context_takeover; client_no_context_takeover", "permessage-deflate; server_max_window_bits=15", "permessage-deflate; server_max_window_bits=8",
	"permessage-deflate; server_max_window_bits=7", "permessage-deflate; server_max_window_bits=abc", "permessage-deflate; server_max_window_bits", "permessage-deflate; client_max_window_bits=15",
	"permessage-deflate; client_max_window_bits", "permessage-deflate; meow", "permessage-deflate, permessage-deflate", "permessage-deflate, foo", "foo", "x-webkit-deflate-frame",
	"permessage-deflate; server_no_context_takeover; server_no_context_takeover", "permessage-deflate; server_max_window_bits=10; server_max_window_bits=12", "Permessage-Deflate",
	"permessage-deflate;server_no_context_takeover", " permessage-deflate ; client_no_context_takeover "}

func genHsDial(r *Rng, tier string, stat func(string)) []string {
	var out []string
	statuses := []int{101, 101, 101, 101, 200, 400, 426, 500, 100, 301}
	conns := [][]string{{"Upgrade"}, {"upgrade"}, {"keep-alive, Upgrade"}, {"close"}, {}, {""}}
	upgs := [][]string{{"websocket"}, {"WebSocket"}, {"WEBSOCKET, h2c"}, {"h2c"}, {}, {""}}
	accepts := []string{"correct", "correct", "correct", "other", "missing", "upper", "empty", "double"}
	protos := []string{"", "", "chat", "Chat", "superchat", "x", "chat, superchat"}
	reqSubs := [][]string{nil, {"chat"}, {"chat", "superchat"}, {"CHAT"}}
	n := 2000
	if tier == "thorough" {
		n = 40000
	}
	for i := 0; i < n; i++ {
		bias := 4
		if i%3 == 0 {
			bias = 1
		}
		st := 101
		if r.Intn(bias*2) == 0 {
			st = statuses[r.Intn(len(statuses))]
		}
		var hdrs [][2]string
		cs, us := conns[0], upgs[0]
		if r.Intn(bias) == 0 {
			cs = conns[r.Intn(len(conns))]
		}
		if r.Intn(bias) == 0 {
			us = upgs[r.Intn(len(upgs))]
		}
		for _, v := range cs {
			hdrs = append(hdrs, [2]string{"Connection", v})
		}
		for _, v := range us {
			hdrs = append(hdrs, [2]string{"Upgrade", v})
		}
		acc := "correct"
		if r.Intn(bias) == 0 {
			acc = accepts[r.Intn(len(accepts))]
		}
		if p := protos[r.Intn(len(protos))]; p != "" {
			hdrs = append(hdrs, [2]string{"Sec-Websocket-Protocol", p})
		}
		if e := extResponses[r.Intn(len(extResponses))]; e != "" && r.Intn(2) == 0 {
			hdrs = append(hdrs, [2]string{"Sec-Websocket-Extensions", e})
		}
		// caller-supplied headers, including attempts to override the reserved ones, and a Host override
		var ch [][2]string
		if r.Intn(3) == 0 {
			ch = append(ch, [2]string{"X-Custom", "v1"}, [2]string{"Cookie", "a=b"})
		}
		if r.Intn(5) == 0 {
			ch = append(ch, [2]string{r.PickS([]string{"Connection", "Upgrade", "Sec-Websocket-Version", "Sec-Websocket-Key", "Sec-Websocket-Protocol", "Sec-Websocket-Extensions"}), "caller"})
		}
		hostOpt := ""
		if r.Intn(4) == 0 {
			hostOpt = "override.example"
		}
		// predial: the caller's HTTPHeader map has already been used for an earlier Dial with other options
		predial := 0
		if i%3 == 1 {
			predial = 1
		}
		out = append(out, fmt.Sprintf("status=%d hdrs=%s accept=%s subs=%s mode=%d chdrs=%s hostopt=%s predial=%d", st, encHdrs(hdrs), acc, encList(reqSubs[r.Intn(len(reqSubs))]), r.Intn(3), encHdrs(ch), hx(hostOpt), predial))
		stat("random")
	}
	valid := [][2]string{{"Connection", "Upgrade"}, {"Upgrade", "websocket"}}
	for _, e := range extResponses {
		for mode := 0; mode < 3; mode++ {
			h := append([][2]string(nil), valid...)
			if e != "" {
				h = append(h, [2]string{"Sec-Websocket-Extensions", e})
			}
			out = append(out, fmt.Sprintf("status=101 hdrs=%s accept=correct subs=- mode=%d chdrs=- hostopt=-", encHdrs(h), mode))
			stat("response-grid")
		}
	}
	return out
}

type dialRT struct {
	kv   map[string]string
	body *memConn
	req  *http.Request
}

func (rt *dialRT) RoundTrip(req *http.Request) (*http.Response, error) {
	rt.req = req
	h := decHdrs(rt.kv["hdrs"])
	key := req.Header.Get("Sec-WebSocket-Key")
	switch rt.kv["accept"] {
	case "correct":
		h.Set("Sec-WebSocket-Accept", acceptKey(key))
	case "other":
		h.Set("Sec-WebSocket-Accept", acceptKey("x3JJHMbDL1EzLkh9GBhXDw=="))
	case "upper":
		h.Set("Sec-WebSocket-Accept", strings.ToUpper(acceptKey(key)))
	case "empty":
		h.Set("Sec-WebSocket-Accept", "")
	case "double":
		h["Sec-Websocket-Accept"] = []string{acceptKey("x3JJHMbDL1EzLkh9GBhXDw=="), acceptKey(key)}
	}
	st, _ := strconv.Atoi(rt.kv["status"])
	return &http.Response{StatusCode: st, Status: strconv.Itoa(st), Proto: "HTTP/1.1", ProtoMajor: 1, ProtoMinor: 1, Header: h, Body: rt.body, Request: req}, nil
}

func runHsDial(kv map[string]string) string {
	lib, raw := newTransport()
	raw.End(io.EOF) // nothing follows the response: Dial's error path reads the body until EOF
	rt := &dialRT{kv: kv, body: lib}
	mode, _ := strconv.Atoi(kv["mode"])
	ctx, cancel := context.WithTimeout(context.Background(), 10*time.Second)
	defer cancel()
	callerHdr := decHdrs(kv["chdrs"])
	earlierKey := ""
	if kv["predial"] == "1" {
		// the same header map object was used for an earlier Dial with subprotocols and compression: nothing of that Dial may stick
		if callerHdr == nil {
			callerHdr = http.Header{}
		}
		lib0, raw0 := newTransport()
		raw0.End(io.EOF)
		rt0 := &dialRT{kv: map[string]string{"status": "400", "hdrs": "-", "accept": "missing"}, body: lib0}
		c0, _, _ := websocket.Dial(ctx, "ws://dial.example/earlier", &websocket.DialOptions{HTTPClient: &http.Client{Transport: rt0}, Subprotocols: []string{"earlier1", "earlier2"},
			CompressionMode: websocket.CompressionContextTakeover, HTTPHeader: callerHdr})
		if c0 != nil {
			c0.CloseNow()
		}
		if rt0.req != nil {
			earlierKey = rt0.req.Header.Get("Sec-WebSocket-Key")
		}
	}
	before := callerHdr.Clone()
	c, _, err := websocket.Dial(ctx, "ws://dial.example/path", &websocket.DialOptions{HTTPClient: &http.Client{Transport: rt}, Subprotocols: decList(kv["subs"]),
		CompressionMode: websocket.CompressionMode(mode), HTTPHeader: callerHdr, Host: string(Payload(kv["hostopt"]))})
	kept := 1
	if !reflect.DeepEqual(before, callerHdr) {
		kept = 0 // Dial modified the caller's header map
	}
	ok := 0
	sub := "-"
	co := "-"
	if err == nil {
		ok = 1
		sub = hx(c.Subprotocol())
		co = websocket.VerifCopts(c)
		c.CloseNow()
	} else if c != nil {
		ok = 2 // an error AND a connection: never allowed
	}
	// the request Dial built
	var rh [][2]string
	keyOK := 0
	if rt.req != nil {
		keys := make([]string, 0, len(rt.req.Header))
		for k := range rt.req.Header {
			keys = append(keys, k)
		}
		sort.Strings(keys)
		for _, k := range keys {
			for _, v := range rt.req.Header[k] {
				if k == "Sec-Websocket-Key" {
					if d, e := base64.StdEncoding.DecodeString(v); e == nil && len(d) == 16 && len(rt.req.Header[k]) == 1 {
						keyOK = 1
					}
					if v == earlierKey && earlierKey != "" {
						keyOK = 3 // the nonce of the earlier attempt was used again
					}
					v = "@KEY@"
				}
				rh = append(rh, [2]string{k, v})
			}
		}
	}
	host := "-"
	method := "-"
	if rt.req != nil {
		host = hx(rt.req.Host)
		method = rt.req.Method
	}
	return fmt.Sprintf("ok=%d subproto=%s co=%s keyok=%d method=%s host=%s hdrkept=%d req=%s", ok, sub, co, keyOK, method, host, kept, encHdrs(rh))
}

var _ = hex.EncodeToString
