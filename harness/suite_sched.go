package main

import (
	"context"
	"fmt"
	"runtime"
	"strconv"
	"strings"
	"sync"
	"time"

	"nhooyr.io/websocket"
)

// suite sched (C05, C16, C20): concurrent writers (Write and streaming Writer), a pinger and a closer on one library
// endpoint; the transport yields at seeded points; the synchronisation hooks (-tags verif) record the schedule.
//   role= co= mode= thr= plan=<w0 ops>/<w1 ops>/...  pings=<n> closer=<none|close|closenow|peerclose>:<delay µs> yseed=<n>
//   op = W<len> | S<len>x<chunks>
// Observation: res=<per thread: 0/1 per call, threads separated by '/'> wire=<hex> trace=<th:ev:mu:a:b,...> gleak=<library goroutines still running>

func init() {
	suites["sched"] = &Suite{Gen: genSched, Run: runSched, Parallel: 4}
}

func genSched(r *Rng, tier string, stat func(string)) []string {
	n := 90
	if tier == "thorough" {
		n = 2500
	}
	var out []string
	for i := 0; i < n; i++ {
		cfg := genCfg(r)
		nw := 2 + r.Intn(5)
		if i%10 == 0 {
			nw = 8
		}
		var plans []string
		used := map[int]bool{}
		impatient := map[int]bool{}
		if i%4 == 3 {
			impatient[nw-1] = true
			if nw > 3 {
				impatient[nw-2] = true
			}
		}
		for w := 0; w < nw; w++ {
			nm := 1 + r.Intn(5)
			var ops []string
			for m := 0; m < nm; m++ {
				var sz int
				for {
					sz = 16 + r.Intn(3000)
					if r.Intn(6) == 0 {
						sz = 4000 + r.Intn(9000)
					}
					if !used[sz] {
						used[sz] = true
						break
					}
				}
				switch {
				case impatient[w]:
					// an impatient writer: Write under a context of a few hundred microseconds — it may give up while it waits
					// for a lock (the call fails, nothing else may change) or expire during the write (the connection is closed)
					ops = append(ops, fmt.Sprintf("I%d", sz))
				case r.Intn(3) == 0:
					ops = append(ops, fmt.Sprintf("S%dx%d", sz, 1+r.Intn(4)))
				default:
					ops = append(ops, fmt.Sprintf("W%d", sz))
				}
			}
			plans = append(plans, strings.Join(ops, ","))
		}
		closer := "none:0"
		switch r.Intn(5) {
		case 0:
			closer = fmt.Sprintf("close:%d", r.Intn(3000))
		case 1:
			closer = fmt.Sprintf("closenow:%d", r.Intn(3000))
		case 2:
			closer = fmt.Sprintf("peerclose:%d", r.Intn(3000))
		case 3:
			closer = fmt.Sprintf("close:%d", r.Intn(300))
		}
		// extra pinger goroutines: several control frames can then queue for the frame lock at the same time
		xping := 0
		if i%3 != 1 {
			xping = 1 + r.Intn(3)
		}
		// a slow transport (every transport write sleeps) keeps the frame lock busy, so that writers and pingers pile up behind it
		slow := 0
		if i%3 == 2 {
			slow = 100 + r.Intn(300)
		}
		out = append(out, fmt.Sprintf("%s plan=%s pings=%d xping=%d slow=%d closer=%s yseed=%d", cfg, strings.Join(plans, "/"), r.Intn(4)+xping, xping, slow, closer, r.Intn(1<<30)))
		stat("writers:" + strconv.Itoa(nw))
		stat("closer:" + strings.Split(closer, ":")[0])
	}
	return out
}

// schedPayload: every message carries writer id and sequence number and is length- and content-distinct.
func schedPayload(w, seq, n int) []byte {
	tag := fmt.Sprintf("w%02d:%03d;", w, seq)
	p := GenBytes("text", n, w*1000+seq+1)
	copy(p, tag)
	return p
}

func libGoroutines() int {
	buf := make([]byte, 1<<20)
	n := runtime.Stack(buf, true)
	cnt := 0
	for _, g := range strings.Split(string(buf[:n]), "\n\n") {
		if strings.Contains(g, "nhooyr.io/websocket.(*Conn).timeoutLoop") || strings.Contains(g, "nhooyr.io/websocket.(*Conn).CloseRead.func1") {
			cnt++
		}
	}
	return cnt
}

func runSched(kv map[string]string) string {
	cfg := cfgFromKV(kv)
	before := libGoroutines()
	c, raw, err := newLibConn(cfg)
	if err != nil {
		return "dialerr=" + errClass(err)
	}
	websocket.VerifTraceOn(c)
	defer websocket.VerifTraceOff(c)
	yseed, _ := strconv.Atoi(kv["yseed"])
	yr := NewRng(uint64(yseed))
	var ymu sync.Mutex
	peer := startAutoPeer(raw, cfg.Role, true)
	ctx, cancel := context.WithTimeout(context.Background(), 60*time.Second)
	pb := &panicBox{onPanic: cancel}
	defer cancel()
	c.CloseRead(ctx)
	plans := strings.Split(kv["plan"], "/")
	npings, _ := strconv.Atoi(kv["pings"])
	xping, _ := strconv.Atoi(kv["xping"])
	nthreads := len(plans) + 2 + xping
	goids := make([]int64, nthreads)
	results := make([][]string, nthreads)
	var wg sync.WaitGroup
	start := make(chan struct{})
	slow, _ := strconv.Atoi(kv["slow"])
	jitter := func() {
		if slow > 0 {
			time.Sleep(time.Duration(slow) * time.Microsecond)
		}
		ymu.Lock()
		k := yr.Intn(8)
		ymu.Unlock()
		switch {
		case k < 3:
			runtime.Gosched()
		case k == 3:
			time.Sleep(time.Duration(20+k*10) * time.Microsecond)
		}
	}
	// the transport yields / sleeps at seeded points while the library writes
	raw.c.out.hook = jitter
	for w, plan := range plans {
		wg.Add(1)
		go func(w int, plan string) {
			defer wg.Done()
			defer pb.guard()
			goids[w] = websocket.VerifGoID()
			<-start
			for seq, op := range strings.Split(plan, ",") {
				jitter()
				var e error
				if op[0] == 'W' {
					n, _ := strconv.Atoi(op[1:])
					e = c.Write(ctx, websocket.MessageBinary, schedPayload(w, seq, n))
				} else if op[0] == 'I' {
					n, _ := strconv.Atoi(op[1:])
					ymu.Lock()
					d := time.Duration(100+yr.Intn(600)) * time.Microsecond
					ymu.Unlock()
					ictx, ic := context.WithTimeout(ctx, d)
					e = c.Write(ictx, websocket.MessageBinary, schedPayload(w, seq, n))
					ic()
				} else {
					f := strings.Split(op[1:], "x")
					n, _ := strconv.Atoi(f[0])
					nch, _ := strconv.Atoi(f[1])
					p := schedPayload(w, seq, n)
					var wr interface {
						Write([]byte) (int, error)
						Close() error
					}
					wr, e = c.Writer(ctx, websocket.MessageText)
					if e == nil {
						step := (n + nch - 1) / nch
						for pos := 0; pos < n && e == nil; pos += step {
							end := pos + step
							if end > n {
								end = n
							}
							_, e = wr.Write(p[pos:end])
							jitter()
						}
						if e == nil {
							e = wr.Close()
						}
					}
				}
				if e == nil {
					results[w] = append(results[w], "1")
				} else {
					results[w] = append(results[w], "0")
				}
			}
		}(w, plan)
	}
	pi := len(plans)
	wg.Add(1)
	go func() {
		defer wg.Done()
		defer pb.guard()
		goids[pi] = websocket.VerifGoID()
		<-start
		for k := 0; k < npings; k++ {
			jitter()
			pctx, pc := context.WithTimeout(ctx, 2*time.Second)
			e := c.Ping(pctx)
			pc()
			if e == nil {
				results[pi] = append(results[pi], "1")
			} else {
				results[pi] = append(results[pi], "0")
			}
		}
	}()
	for x := 0; x < xping; x++ {
		xi := len(plans) + 2 + x
		wg.Add(1)
		go func(xi int) {
			defer wg.Done()
			defer pb.guard()
			goids[xi] = websocket.VerifGoID()
			<-start
			for k := 0; k < npings; k++ {
				jitter()
				pctx, pc := context.WithTimeout(ctx, 2*time.Second)
				e := c.Ping(pctx)
				pc()
				if e == nil {
					results[xi] = append(results[xi], "1")
				} else {
					results[xi] = append(results[xi], "0")
				}
			}
		}(xi)
	}
	ci := len(plans) + 1
	cl := strings.Split(kv["closer"], ":")
	delay, _ := strconv.Atoi(cl[1])
	wg.Add(1)
	go func() {
		defer wg.Done()
		defer pb.guard()
		goids[ci] = websocket.VerifGoID()
		<-start
		if cl[0] == "none" {
			return
		}
		time.Sleep(time.Duration(delay) * time.Microsecond)
		var e error
		switch cl[0] {
		case "close":
			e = c.Close(websocket.StatusNormalClosure, "bye")
		case "closenow":
			e = c.CloseNow()
		case "peerclose":
			peer.send(rawFrame{Fin: true, Opcode: 8, Payload: []byte{0x03, 0xe8}})
			return
		}
		if e == nil {
			results[ci] = append(results[ci], "1")
		} else {
			results[ci] = append(results[ci], "0")
		}
	}()
	time.Sleep(2 * time.Millisecond)
	close(start)
	done := make(chan struct{})
	go func() { wg.Wait(); close(done) }()
	select {
	case <-done:
	case <-time.After(40 * time.Second):
		if m := pb.get(); m != "" {
			return m
		}
		return "hang=writers"
	}
	if m := pb.get(); m != "" {
		c.CloseNow()
		return m
	}
	closeErr := c.CloseNow()
	_ = closeErr
	select {
	case <-peer.done:
	case <-time.After(20 * time.Second):
		return "hang=peer-not-done"
	}
	// goroutines of the library for this connection must be gone once CloseNow has returned
	leak := -1
	for i := 0; i < 50; i++ {
		leak = libGoroutines() - before
		if leak <= 0 {
			break
		}
		time.Sleep(2 * time.Millisecond)
	}
	gmap := map[int64]int{}
	for i, g := range goids {
		gmap[g] = i
	}
	next := nthreads
	var tr []string
	for _, e := range websocket.VerifTrace(c) {
		th, ok := gmap[e.G]
		if !ok {
			th = next
			gmap[e.G] = th
			next++
		}
		tr = append(tr, fmt.Sprintf("%d:%d:%d:%d:%d", th, e.Ev, e.Mu, e.A, e.B))
	}
	var rs []string
	for _, r := range results {
		if len(r) == 0 {
			rs = append(rs, "-")
		} else {
			rs = append(rs, strings.Join(r, ""))
		}
	}
	return fmt.Sprintf("res=%s nthreads=%d leak=%d wire=%s trace=%s", strings.Join(rs, "/"), nthreads, leak, Hex(peer.Recorded()), strings.Join(tr, ","))
}
