package main

import (
	"context"
	"fmt"
	"strings"
	"sync"
	"time"

	"nhooyr.io/websocket"
)

// suite ping (C15, matching half): Ping calls against a raw peer that reacts to every Ping frame by script.
//   role=client|server mode=seq|conc script=<reaction>/<reaction>/...   one reaction per Ping call, in the order the peer receives the frames
//   reaction = sequence of letters, each one Pong frame sent in answer (none = withheld):
//     e exact payload        d exact payload twice          u an unsolicited Pong ("zz") first
//     q a PING frame (not a Pong) carrying p: the peer pings with the same payload — it must be answered, not taken for the Pong
//     z "0"+p   p "+"+p   s p+" "   l " "+p   t p+"0"   m empty   x "x"+p   c p with its last byte changed (xor 0x40)   h first half of p
//   In conc mode all calls start together; the peer waits for all Ping frames and answers them in REVERSE order of receipt.
// A call whose reaction contains no exact echo gets a short context (it must fail when that ends); the others a long one.
// Observation: res=<0|1 per call, in the peer's receipt order> pings=<hex payload per call, receipt order> later=<0|1: a final exact-echoed Ping works>

func init() {
	suites["ping"] = &Suite{Gen: genPing, Run: runPing, Parallel: 40}
}

var pingForeign = []string{"z", "p", "s", "l", "t", "m", "x", "c", "h", "u", "q"}

func genPing(r *Rng, tier string, stat func(string)) []string {
	var out []string
	add := func(role, mode string, script []string) {
		out = append(out, fmt.Sprintf("role=%s mode=%s script=%s", role, mode, strings.Join(script, "/")))
		stat("mode:" + mode)
		for _, s := range script {
			switch {
			case s == "":
				stat("reaction:withheld")
			case strings.ContainsAny(s, "ed"):
				stat("reaction:echoed")
			default:
				stat("reaction:foreign-only")
			}
		}
	}
	for _, role := range []string{"client", "server"} {
		// every foreign variant alone, before an echo, and after an echo
		for _, f := range pingForeign {
			add(role, "seq", []string{"e", f, "e"})
			add(role, "seq", []string{f + "e", "e" + f, f + f})
		}
		add(role, "seq", []string{"e", "", "e", "d", "e"})
		add(role, "conc", []string{"e", "e", "e", "e"})
		add(role, "conc", []string{"e", "", "e", "z", "d"})
	}
	n := 40
	if tier == "thorough" {
		n = 600
	}
	for i := 0; i < n; i++ {
		k := 1 + r.Intn(6)
		var script []string
		for j := 0; j < k; j++ {
			var s string
			switch r.Intn(6) {
			case 0:
			case 1, 2:
				s = "e"
			case 3:
				s = r.PickS(pingForeign)
			case 4:
				s = r.PickS(pingForeign) + "e"
			case 5:
				s = "e" + r.PickS(pingForeign) + r.PickS(pingForeign)
			}
			script = append(script, s)
		}
		add(r.PickS([]string{"client", "server"}), r.PickS([]string{"seq", "conc"}), script)
	}
	return out
}

func pongPayload(letter byte, p []byte) []byte {
	q := append([]byte(nil), p...)
	switch letter {
	case 'e', 'd':
		return q
	case 'u':
		return []byte("zz")
	case 'z':
		return append([]byte("0"), q...)
	case 'p':
		return append([]byte("+"), q...)
	case 's':
		return append(q, ' ')
	case 'l':
		return append([]byte(" "), q...)
	case 't':
		return append(q, '0')
	case 'm':
		return nil
	case 'x':
		return append([]byte("x"), q...)
	case 'c':
		if len(q) > 0 {
			q[len(q)-1] ^= 0x40 // never the spelling of another counter value
		}
		return q
	case 'h':
		return q[:len(q)/2]
	}
	return q
}

func runPing(kv map[string]string) string {
	cfg := EndpointCfg{Role: kv["role"]}
	c, raw, err := newLibConn(cfg)
	if err != nil {
		return "dialerr=" + errClass(err)
	}
	defer c.CloseNow()
	script := strings.Split(kv["script"], "/")
	conc := kv["mode"] == "conc"
	ctx, cancel := context.WithTimeout(context.Background(), 30*time.Second)
	defer cancel()
	c.CloseRead(ctx) // somebody must read for Pongs to be processed

	send := func(f rawFrame) {
		f.DeclLen = -1
		if cfg.Role == "server" {
			f.Masked = true
			f.Key = [4]byte{0x51, 0x62, 0x73, 0x84}
		}
		raw.Send(f.Encode())
	}
	react := func(reaction string, p []byte) {
		for i := 0; i < len(reaction); i++ {
			if reaction[i] == 'q' {
				send(rawFrame{Fin: true, Opcode: 9, Payload: append([]byte(nil), p...)})
				continue
			}
			send(rawFrame{Fin: true, Opcode: 10, Payload: pongPayload(reaction[i], p)})
			if reaction[i] == 'd' {
				send(rawFrame{Fin: true, Opcode: 10, Payload: pongPayload('e', p)})
			}
		}
	}
	// the peer: parses the library's frames; in seq mode reacts at once, in conc mode after all Pings arrived, in reverse order
	var mu sync.Mutex
	var seen [][]byte
	final := false
	peerDone := make(chan struct{})
	go func() {
		defer close(peerDone)
		buf := make([]byte, 65536)
		var pending []byte
		for {
			n, err := raw.Read(buf)
			if n > 0 {
				pending = append(pending, buf[:n]...)
				var fs []rawFrame
				fs, pending = parseRawFrames(pending)
				for _, f := range fs {
					if f.Opcode != 9 {
						continue
					}
					mu.Lock()
					if final {
						mu.Unlock()
						send(rawFrame{Fin: true, Opcode: 10, Payload: f.Payload})
						continue
					}
					seen = append(seen, append([]byte(nil), f.Payload...))
					k := len(seen)
					mu.Unlock()
					if !conc {
						if k <= len(script) {
							react(script[k-1], f.Payload)
						}
					} else if k == len(script) {
						mu.Lock()
						all := append([][]byte(nil), seen...)
						mu.Unlock()
						for i := len(all) - 1; i >= 0; i-- {
							react(script[i], all[i])
						}
					}
				}
			}
			if err != nil {
				return
			}
		}
	}()

	ctxFor := func(reaction string) (context.Context, context.CancelFunc) {
		if strings.ContainsAny(reaction, "ed") {
			return context.WithTimeout(ctx, 10*time.Second)
		}
		return context.WithTimeout(ctx, 300*time.Millisecond)
	}
	// results are reported in the peer's receipt order: a call learns its position from the payload it sent, which the
	// harness cannot see — so in conc mode every call uses the SAME kind of context (long iff every reaction echoes) and the
	// results are matched through the model (which knows which payloads got their echo); in seq mode order = call order.
	results := make([]string, len(script))
	if !conc {
		for i, reaction := range script {
			pctx, pc := ctxFor(reaction)
			e := c.Ping(pctx)
			pc()
			if e == nil {
				results[i] = "1"
			} else {
				results[i] = "0"
			}
		}
	} else {
		var wg sync.WaitGroup
		nOK := 0
		var rmu sync.Mutex
		for range script {
			wg.Add(1)
			go func() {
				defer wg.Done()
				pctx, pc := context.WithTimeout(ctx, 1500*time.Millisecond)
				e := c.Ping(pctx)
				pc()
				if e == nil {
					rmu.Lock()
					nOK++
					rmu.Unlock()
				}
			}()
		}
		wg.Wait()
		// concurrent calls cannot be told apart from outside: report how many succeeded
		for i := range results {
			results[i] = "?"
		}
		results = []string{fmt.Sprintf("ok%d", nOK)}
	}
	// the connection must still work: one more Ping, echoed exactly
	mu.Lock()
	final = true
	mu.Unlock()
	lctx, lc := context.WithTimeout(ctx, 5*time.Second)
	later := c.Ping(lctx) == nil
	lc()
	c.CloseNow()
	select {
	case <-peerDone:
	case <-time.After(5 * time.Second):
	}
	mu.Lock()
	var ps []string
	for _, p := range seen {
		ps = append(ps, Hex(p))
	}
	mu.Unlock()
	if len(ps) == 0 {
		ps = []string{"-"}
	}
	l := "0"
	if later {
		l = "1"
	}
	return fmt.Sprintf("res=%s pings=%s later=%s", strings.Join(results, ","), strings.Join(ps, ","), l)
}

var _ = websocket.MessageText
