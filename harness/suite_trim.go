package main

import (
	"fmt"
	"strconv"
	"strings"

	"nhooyr.io/websocket"
)

// suite trim (C01, C02): the writer that withholds the last four bytes of the compressor's output (compress.go
// trimLastFourBytesWriter, RFC 7692 section 7.2.1) driven directly with ARBITRARY chunkings — compress/flate itself only ever
// produces a few chunk shapes —: after every Write the chunks handed downstream and the withheld tail are compared with
// Model/Window.v trim_step.
//   chunks=<len,len,...>    bytes of chunk k: GenBytes("rand", len, k+1)
// Observation per chunk: <downstream writes as hex, '+'-separated | ->/<tail hex | ->/<n returned>

func init() {
	suites["trim"] = &Suite{Gen: genTrim, Run: runTrim, Parallel: 8}
}

func genTrim(r *Rng, tier string, stat func(string)) []string {
	n := 400
	if tier == "thorough" {
		n = 8000
	}
	var out []string
	for i := 0; i < n; i++ {
		k := 1 + r.Intn(10)
		var ls []string
		for j := 0; j < k; j++ {
			var l int
			switch r.Intn(6) {
			case 0:
				l = r.Intn(3)
			case 1, 2:
				l = r.Intn(7)
			case 3:
				l = 3 + r.Intn(4)
			case 4:
				l = r.Intn(12)
			default:
				l = r.Intn(300)
			}
			ls = append(ls, strconv.Itoa(l))
		}
		out = append(out, "chunks="+strings.Join(ls, ","))
	}
	// every pair and triple of small chunk sizes
	for a := 0; a <= 6; a++ {
		for b := 0; b <= 6; b++ {
			out = append(out, fmt.Sprintf("chunks=%d,%d", a, b))
			for c := 0; c <= 6; c += 1 {
				if (a+b+c)%3 == 0 {
					out = append(out, fmt.Sprintf("chunks=%d,%d,%d", a, b, c))
				}
			}
		}
	}
	return out
}

func runTrim(kv map[string]string) string {
	t := websocket.VerifTrimNew()
	var obs []string
	for k, ls := range strings.Split(kv["chunks"], ",") {
		l, _ := strconv.Atoi(ls)
		p := GenBytes("rand", l, k+1)
		n, err := t.Write(p)
		var ws []string
		for _, w := range t.TakeWrites() {
			ws = append(ws, Hex(w))
		}
		w := "-"
		if len(ws) > 0 {
			w = strings.Join(ws, "+")
		}
		e := ""
		if err != nil {
			e = "!err"
		}
		obs = append(obs, fmt.Sprintf("%s/%s/%d%s", w, Hex(t.Tail()), n, e))
	}
	return "obs=" + strings.Join(obs, ",")
}
