package main

import (
	"context"
	"fmt"
	"hash/fnv"
	"io"
	"strconv"
	"strings"
	"sync"
	"time"

	"nhooyr.io/websocket"
)

// suite wire-out (C02, C01, C06, C16): a library endpoint executes an API program; the scripted raw
// peer records every byte the library writes, answers Pings with Pongs and echoes the Close frame.
//   role= co= mode= thr= prog=<op>|<op>...   op = W~typ~payload | S~typ~chunk;chunk;... | P | C~code~reasonhex | X (CloseNow)

func init() {
	suites["wire-out"] = &Suite{Gen: genWireOut, Run: runWireOut, Parallel: 8}
}

var boundarySizes = []int{0, 1, 2, 3, 4, 5, 124, 125, 126, 127, 128, 129, 511, 512, 513, 4079, 4080, 4090, 4094, 4095, 4096, 4097, 8192, 32767, 32768, 32769, 65535, 65536, 65537}

func pickSize(r *Rng, big bool) int {
	switch r.Intn(10) {
	case 0, 1, 2, 3:
		return boundarySizes[r.Intn(len(boundarySizes))]
	case 4, 5, 6:
		return r.Intn(300)
	case 7, 8:
		return r.Intn(9000)
	default:
		if big {
			return 60000 + r.Intn(200000)
		}
		return r.Intn(70000)
	}
}

func genCfg(r *Rng) string {
	role := r.PickS([]string{"client", "server"})
	co := r.PickS([]string{"none", "none", "00", "01", "10", "11", "00", "11"})
	mode := "takeover"
	if co == "11" && r.Bool() {
		mode = "notakeover"
	}
	thr := r.Pick([]int{0, 0, 0, 1, 64, 1000})
	return fmt.Sprintf("role=%s co=%s mode=%s thr=%d", role, co, mode, thr)
}

func genWireOut(r *Rng, tier string, stat func(string)) []string {
	n := 260
	if tier == "thorough" {
		n = 4000
	}
	var out []string
	for i := 0; i < n; i++ {
		cfg := genCfg(r)
		nops := 1 + r.Intn(6)
		var ops []string
		budget := 400000
		for j := 0; j < nops; j++ {
			switch k := r.Intn(10); {
			case k < 5:
				sz := pickSize(r, tier == "thorough" && i%40 == 0)
				if sz > budget {
					sz = budget
				}
				budget -= sz
				ops = append(ops, fmt.Sprintf("W~%d~%s", 1+r.Intn(2), GenField(r, sz)))
				stat("op:write")
			case k < 8:
				nch := r.Intn(5)
				var chs []string
				for c := 0; c < nch; c++ {
					sz := pickSize(r, false)
					if r.Intn(3) == 0 {
						sz = r.Intn(8)
					}
					if sz > budget {
						sz = budget
					}
					budget -= sz
					chs = append(chs, GenField(r, sz))
				}
				ops = append(ops, fmt.Sprintf("S~%d~%s", 1+r.Intn(2), strings.Join(chs, ";")))
				stat("op:stream")
			default:
				ops = append(ops, "P")
				stat("op:ping")
			}
		}
		switch r.Intn(4) {
		case 0:
			code := r.Pick([]int{1000, 1001, 1005, 1011, 3000, 4999, 1002})
			rl := r.Pick([]int{0, 1, 20, 122, 123})
			ops = append(ops, fmt.Sprintf("C~%d~%s", code, Hex(GenBytes("text", rl, r.Intn(1000)))))
			stat("op:close")
		case 1:
			// a refused close (never sent) followed by CloseNow
			code := r.Pick([]int{1004, 1006, 1015, 999, 2999, 5000, 70000, 0, -1, 1000})
			rl := 0
			if code == 1000 {
				rl = 124 + r.Intn(10)
			}
			ops = append(ops, fmt.Sprintf("C~%d~%s", code, Hex(GenBytes("text", rl, r.Intn(1000)))))
			stat("op:close-refused")
		}
		if i%4 == 3 {
			// every finished stream writer is used again (Close, Write): nothing more may reach the wire
			cfg += " stale=1"
			stat("stale-writer-use")
		}
		out = append(out, cfg+" prog="+strings.Join(ops, "|"))
		stat("cfg:" + strings.Fields(cfg)[0] + "," + strings.Fields(cfg)[1])
	}
	return out
}

func sum64(b []byte) uint64 { h := fnv.New64a(); h.Write(b); return h.Sum64() }

// autoPeer drains what the library writes, answers pings, echoes the first close and then ends the transport.
type autoPeer struct {
	raw      *rawEnd
	libRole  string
	mu       sync.Mutex
	recorded []byte
	done     chan struct{}
	echo     bool
}

func startAutoPeer(raw *rawEnd, libRole string, echoClose bool) *autoPeer {
	p := &autoPeer{raw: raw, libRole: libRole, done: make(chan struct{}), echo: echoClose}
	go p.loop()
	return p
}

func (p *autoPeer) send(f rawFrame) {
	f.DeclLen = -1
	if p.libRole == "server" { // the peer is the client: it must mask
		f.Masked = true
		f.Key = [4]byte{0x11, 0x22, 0x33, 0x44}
	}
	p.raw.Send(f.Encode())
}

func (p *autoPeer) loop() {
	defer close(p.done)
	buf := make([]byte, 65536)
	var pending []byte
	closed := false
	for {
		n, err := p.raw.Read(buf)
		if n > 0 {
			p.mu.Lock()
			p.recorded = append(p.recorded, buf[:n]...)
			p.mu.Unlock()
			pending = append(pending, buf[:n]...)
			var fs []rawFrame
			fs, pending = parseRawFrames(pending)
			for _, f := range fs {
				switch f.Opcode {
				case 9:
					if !closed {
						p.send(rawFrame{Fin: true, Opcode: 10, Payload: f.Payload})
					}
				case 8:
					if !closed && p.echo {
						closed = true
						p.send(rawFrame{Fin: true, Opcode: 8, Payload: f.Payload})
					}
				}
			}
		}
		if err != nil {
			return
		}
	}
}

func (p *autoPeer) Recorded() []byte {
	p.mu.Lock()
	defer p.mu.Unlock()
	return append([]byte(nil), p.recorded...)
}

func runWireOut(kv map[string]string) string {
	cfg := cfgFromKV(kv)
	c, raw, err := newLibConn(cfg)
	if err != nil {
		return "dialerr=" + errClass(err)
	}
	peer := startAutoPeer(raw, cfg.Role, true)
	ctx, cancel := context.WithTimeout(context.Background(), 60*time.Second)
	defer cancel()
	c.CloseRead(ctx)
	var errs []string
	bufok := "ok"
	closedByProg := false
	for _, op := range strings.Split(kv["prog"], "|") {
		f := strings.Split(op, "~")
		switch f[0] {
		case "W":
			typ, _ := strconv.Atoi(f[1])
			p := Payload(f[2])
			before := sum64(p)
			err := c.Write(ctx, websocket.MessageType(typ), p)
			if sum64(p) != before {
				bufok = "modified"
			}
			errs = append(errs, errClass(err))
		case "S":
			typ, _ := strconv.Atoi(f[1])
			w, err := c.Writer(ctx, websocket.MessageType(typ))
			if err != nil {
				errs = append(errs, errClass(err))
				continue
			}
			e := "nil"
			if f[2] != "" {
				for _, ch := range strings.Split(f[2], ";") {
					p := Payload(ch)
					before := sum64(p)
					n, err := w.Write(p)
					if sum64(p) != before {
						bufok = "modified"
					}
					if err != nil {
						e = errClass(err)
						break
					}
					if n != len(p) {
						e = "shortwrite"
					}
				}
			}
			if e == "nil" {
				e = errClass(w.Close())
			}
			errs = append(errs, e)
			if kv["stale"] == "1" {
				w.Close()
				w.Write([]byte("late"))
				w.Close()
			}
		case "P":
			errs = append(errs, errClass(c.Ping(ctx)))
		case "C":
			code, _ := strconv.Atoi(f[1])
			err := c.Close(websocket.StatusCode(code), string(Payload(f[2])))
			errs = append(errs, errClass(err))
			closedByProg = true
		case "X":
			errs = append(errs, errClass(c.CloseNow()))
			closedByProg = true
		}
	}
	_ = closedByProg
	c.CloseNow()
	select {
	case <-peer.done:
	case <-time.After(20 * time.Second):
		return "hang=peer-not-done"
	}
	rec := peer.Recorded()
	return fmt.Sprintf("errs=%s bufs=%s wirefnv=%s n=%d wire=%s", strings.Join(errs, ","), bufok, Fnv(rec), len(rec), Hex(rec))
}

var _ = io.EOF
