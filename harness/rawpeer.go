package main

import (
	"bufio"
	"context"
	"crypto/sha1"
	"encoding/base64"
	"encoding/binary"
	"errors"
	"fmt"
	"io"
	"net"
	"net/http"
	"net/url"
	"os"
	"strings"
	"time"

	"nhooyr.io/websocket"
)

// ---------------------------------------------------------------------------------------------
// The harness's own frame codec (NOT the library's): used by the scripted raw peer.

type rawFrame struct {
	Fin, Rsv1, Rsv2, Rsv3 bool
	Opcode                byte
	Masked                bool
	Key                   [4]byte
	Payload               []byte // unmasked
	LenMode               int    // 0 = minimal; 2 / 8 = force 16-/64-bit length field (non-minimal encodings)
	DeclLen               int64  // when >=0 and != len(Payload): declared length differs from the bytes sent (truncation / huge frames)
	RawLen64              uint64 // when HasRaw64: 64-bit length field value to write verbatim (top bit tests)
	HasRaw64              bool
}

func xorMask(p []byte, key [4]byte) []byte {
	out := make([]byte, len(p))
	for i := range p {
		out[i] = p[i] ^ key[i%4]
	}
	return out
}

func (f rawFrame) Encode() []byte {
	var b []byte
	b0 := f.Opcode & 0x0f
	if f.Fin {
		b0 |= 0x80
	}
	if f.Rsv1 {
		b0 |= 0x40
	}
	if f.Rsv2 {
		b0 |= 0x20
	}
	if f.Rsv3 {
		b0 |= 0x10
	}
	b = append(b, b0)
	n := int64(len(f.Payload))
	if f.DeclLen >= 0 && f.DeclLen != n {
		n = f.DeclLen
	}
	var mb byte
	if f.Masked {
		mb = 0x80
	}
	switch {
	case f.HasRaw64:
		b = append(b, mb|127)
		var e [8]byte
		binary.BigEndian.PutUint64(e[:], f.RawLen64)
		b = append(b, e[:]...)
	case f.LenMode == 8 || (f.LenMode == 0 && n > 65535):
		b = append(b, mb|127)
		var e [8]byte
		binary.BigEndian.PutUint64(e[:], uint64(n))
		b = append(b, e[:]...)
	case f.LenMode == 2 || (f.LenMode == 0 && n > 125):
		b = append(b, mb|126)
		var e [2]byte
		binary.BigEndian.PutUint16(e[:], uint16(n))
		b = append(b, e[:]...)
	default:
		b = append(b, mb|byte(n))
	}
	if f.Masked {
		b = append(b, f.Key[:]...)
		b = append(b, xorMask(f.Payload, f.Key)...)
	} else {
		b = append(b, f.Payload...)
	}
	return b
}

// parseRawFrames parses as many complete frames as the bytes contain; rest = unparsed tail.
func parseRawFrames(b []byte) (fs []rawFrame, rest []byte) {
	for {
		if len(b) < 2 {
			return fs, b
		}
		f := rawFrame{DeclLen: -1}
		f.Fin = b[0]&0x80 != 0
		f.Rsv1 = b[0]&0x40 != 0
		f.Rsv2 = b[0]&0x20 != 0
		f.Rsv3 = b[0]&0x10 != 0
		f.Opcode = b[0] & 0x0f
		f.Masked = b[1]&0x80 != 0
		l := uint64(b[1] & 0x7f)
		pos := 2
		switch l {
		case 126:
			if len(b) < 4 {
				return fs, b
			}
			l = uint64(binary.BigEndian.Uint16(b[2:]))
			pos = 4
		case 127:
			if len(b) < 10 {
				return fs, b
			}
			l = binary.BigEndian.Uint64(b[2:])
			pos = 10
		}
		if f.Masked {
			if len(b) < pos+4 {
				return fs, b
			}
			copy(f.Key[:], b[pos:pos+4])
			pos += 4
		}
		if l > uint64(len(b)-pos) {
			return fs, b
		}
		p := b[pos : pos+int(l)]
		if f.Masked {
			f.Payload = xorMask(p, f.Key)
		} else {
			f.Payload = append([]byte(nil), p...)
		}
		fs = append(fs, f)
		b = b[pos+int(l):]
	}
}

// ---------------------------------------------------------------------------------------------
// Library endpoints over scripted transports, through the PUBLIC API only.

type EndpointCfg struct {
	Role      string // the library's role: "client" | "server"
	Flate     bool
	Cnct      bool   // client_no_context_takeover agreed
	Snct      bool   // server_no_context_takeover agreed
	Mode      string // library's own CompressionMode: "takeover" | "notakeover" (only when Flate)
	Threshold int
	// raw overrides for negotiation suites
	ExtHeader    *string // offer (server role) / response (client role) header value to use verbatim
	Subprotocols []string
}

func extString(cnct, snct bool) string {
	s := "permessage-deflate"
	if cnct {
		s += "; client_no_context_takeover"
	}
	if snct {
		s += "; server_no_context_takeover"
	}
	return s
}

func acceptKey(k string) string {
	h := sha1.New()
	h.Write([]byte(k))
	h.Write([]byte("258EAFA5-E914-47DA-95CA-C5AB0DC85B11"))
	return base64.StdEncoding.EncodeToString(h.Sum(nil))
}

type scriptedRT struct {
	body    io.ReadWriteCloser
	ext     string
	hasExt  bool
	lastReq *http.Request
	mutate  func(resp *http.Response)
}

func (rt *scriptedRT) RoundTrip(req *http.Request) (*http.Response, error) {
	rt.lastReq = req
	h := http.Header{}
	h.Set("Upgrade", "websocket")
	h.Set("Connection", "Upgrade")
	h.Set("Sec-WebSocket-Accept", acceptKey(req.Header.Get("Sec-WebSocket-Key")))
	if rt.hasExt {
		h.Set("Sec-WebSocket-Extensions", rt.ext)
	}
	resp := &http.Response{StatusCode: 101, Status: "101 Switching Protocols", Proto: "HTTP/1.1", ProtoMajor: 1, ProtoMinor: 1,
		Header: h, Body: rt.body, Request: req}
	if rt.mutate != nil {
		rt.mutate(resp)
	}
	return resp, nil
}

type hijackRW struct {
	hdr  http.Header
	code int
	body []byte
	conn net.Conn
	did  bool
}

func (w *hijackRW) Header() http.Header { return w.hdr }
func (w *hijackRW) Write(p []byte) (int, error) {
	w.body = append(w.body, p...)
	return len(p), nil
}
func (w *hijackRW) WriteHeader(c int) {
	if w.code == 0 {
		w.code = c
	}
}
func (w *hijackRW) Hijack() (net.Conn, *bufio.ReadWriter, error) {
	w.did = true
	return w.conn, bufio.NewReadWriter(bufio.NewReader(w.conn), bufio.NewWriter(w.conn)), nil
}

func libMode(cfg EndpointCfg) websocket.CompressionMode {
	if !cfg.Flate {
		return websocket.CompressionDisabled
	}
	if cfg.Mode == "notakeover" {
		return websocket.CompressionNoContextTakeover
	}
	return websocket.CompressionContextTakeover
}

// newLibConn creates a library endpoint talking to a scripted raw peer.
func newLibConn(cfg EndpointCfg) (*websocket.Conn, *rawEnd, error) {
	lib, raw := newTransport()
	if cfg.Role == "client" {
		rt := &scriptedRT{body: lib}
		if cfg.ExtHeader != nil {
			rt.hasExt, rt.ext = true, *cfg.ExtHeader
		} else if cfg.Flate {
			rt.hasExt, rt.ext = true, extString(cfg.Cnct, cfg.Snct)
		}
		ctx, cancel := context.WithTimeout(context.Background(), 10*time.Second)
		defer cancel()
		c, _, err := websocket.Dial(ctx, "ws://example.com/", &websocket.DialOptions{
			HTTPClient: &http.Client{Transport: rt}, CompressionMode: libMode(cfg), CompressionThreshold: cfg.Threshold,
			Subprotocols: cfg.Subprotocols})
		if err != nil {
			return nil, nil, err
		}
		return c, raw, nil
	}
	w := &hijackRW{hdr: http.Header{}, conn: lib}
	r := &http.Request{Method: "GET", Proto: "HTTP/1.1", ProtoMajor: 1, ProtoMinor: 1, Host: "example.com",
		URL: &url.URL{Path: "/"}, Header: http.Header{}}
	r.Header.Set("Connection", "Upgrade")
	r.Header.Set("Upgrade", "websocket")
	r.Header.Set("Sec-WebSocket-Version", "13")
	r.Header.Set("Sec-WebSocket-Key", "dGhlIHNhbXBsZSBub25jZQ==")
	if cfg.ExtHeader != nil {
		r.Header.Set("Sec-WebSocket-Extensions", *cfg.ExtHeader)
	} else if cfg.Flate {
		r.Header.Set("Sec-WebSocket-Extensions", extString(cfg.Cnct, cfg.Snct))
	}
	c, err := websocket.Accept(w, r, &websocket.AcceptOptions{CompressionMode: libMode(cfg), CompressionThreshold: cfg.Threshold,
		Subprotocols: cfg.Subprotocols})
	if err != nil {
		return nil, nil, err
	}
	return c, raw, nil
}

// cfgFromKV reads role= co=<none|cnct:snct bits e.g. 00,01,10,11> mode= thr= from a case line.
func cfgFromKV(kv map[string]string) EndpointCfg {
	cfg := EndpointCfg{Role: kv["role"], Mode: kv["mode"]}
	co := kv["co"]
	if co != "" && co != "none" {
		cfg.Flate = true
		cfg.Cnct = co[0] == '1'
		cfg.Snct = co[1] == '1'
	}
	fmt.Sscanf(kv["thr"], "%d", &cfg.Threshold)
	return cfg
}

// errClass is the canonical projection of Go errors (never by text, except where no sentinel exists).
var debugErrs = os.Getenv("VERIF_DEBUG") != ""

func errClass(err error) string {
	if err == nil {
		return "nil"
	}
	if debugErrs {
		fmt.Fprintf(os.Stderr, "DEBUG err: %v\n", err)
	}
	var ce websocket.CloseError
	if errors.As(err, &ce) {
		return fmt.Sprintf("close:%d:%s", ce.Code, Hex([]byte(ce.Reason)))
	}
	switch {
	case errors.Is(err, context.DeadlineExceeded):
		return "deadline"
	case errors.Is(err, context.Canceled):
		return "canceled"
	case errors.Is(err, net.ErrClosed):
		return "closed"
	case err == io.EOF:
		return "eof"
	case errors.Is(err, errPipeFail):
		return "transportfail"
	case errors.Is(err, io.EOF), errors.Is(err, io.ErrUnexpectedEOF):
		return "transporteof"
	}
	s := err.Error()
	switch {
	case strings.Contains(s, "read limited at"):
		return "limit"
	case strings.Contains(s, "previous message not read to completion"), strings.Contains(s, "cannot use closed writer"), strings.Contains(s, "writer already closed"):
		return "usage"
	}
	return "other"
}
