// wsharness runs one correspondence suite against the real library built from /repo's working
// tree (-tags verif) and writes <out>/<suite>.cases (inputs) and <out>/<suite>.impl (observations).
package main

import (
	"bufio"
	"flag"
	"fmt"
	"io"
	"log"
	"os"
	"path/filepath"
	"runtime"
	"runtime/debug"
	"sort"
	"strings"
	"sync"
	"sync/atomic"
	"time"
)

// A Suite generates case lines (key=value fields, without the id) and runs one case against the library.
type Suite struct {
	Gen      func(rng *Rng, tier string, stat func(string)) []string
	Run      func(kv map[string]string) string
	Parallel int           // number of cases run concurrently (default 1)
	Timeout  time.Duration // watchdog per case (default 90 s)
}

var suites = map[string]*Suite{}

func parseKV(line string) map[string]string {
	m := map[string]string{}
	for _, f := range strings.Fields(line) {
		if i := strings.IndexByte(f, '='); i > 0 {
			m[f[:i]] = f[i+1:]
		}
	}
	return m
}

// panicBox collects a panic raised inside a goroutine the suite started (a panic of the library under a Write/Read call):
// it becomes the case's observation instead of killing the harness.
type panicBox struct {
	mu      sync.Mutex
	msg     string
	onPanic func()
}

func (b *panicBox) guard() {
	if r := recover(); r != nil {
		st := strings.ReplaceAll(string(debug.Stack()), "\n", "|")
		st = strings.ReplaceAll(st, " ", "_")
		st = strings.ReplaceAll(st, "\t", "")
		if len(st) > 1500 {
			st = st[:1500]
		}
		b.mu.Lock()
		if b.msg == "" {
			b.msg = fmt.Sprintf("PANIC=%s stack=%s", strings.ReplaceAll(fmt.Sprint(r), " ", "_"), st)
		}
		b.mu.Unlock()
		if b.onPanic != nil {
			b.onPanic()
		}
	}
}

func (b *panicBox) get() string {
	b.mu.Lock()
	defer b.mu.Unlock()
	return b.msg
}

var dumpOnce sync.Once

func safeRun(s *Suite, kv map[string]string) (res string) {
	defer func() {
		if r := recover(); r != nil {
			st := strings.ReplaceAll(string(debug.Stack()), "\n", "|")
			st = strings.ReplaceAll(st, " ", "_")
			st = strings.ReplaceAll(st, "\t", "")
			if len(st) > 1500 {
				st = st[:1500]
			}
			res = fmt.Sprintf("PANIC=%s stack=%s", strings.ReplaceAll(fmt.Sprint(r), " ", "_"), st)
		}
	}()
	return s.Run(kv)
}

func main() {
	seed := flag.Uint64("seed", 1, "seed")
	tier := flag.String("tier", "quick", "quick|thorough")
	out := flag.String("out", ".", "output directory")
	replay := flag.String("replay", "", "file with case lines to run instead of generating")
	oracle := flag.Bool("oracle", false, "run as the flate oracle coprocess of the model runner")
	flag.Parse()
	if *oracle {
		oracleMain()
		return
	}
	if flag.NArg() != 1 {
		fmt.Fprintln(os.Stderr, "usage: wsharness [flags] <suite>")
		os.Exit(2)
	}
	log.SetOutput(io.Discard) // the library logs malformed origin patterns
	name := flag.Arg(0)
	s, ok := suites[name]
	if !ok {
		fmt.Fprintln(os.Stderr, "unknown suite", name)
		os.Exit(2)
	}
	stats := map[string]int{}
	var lines []string
	if *replay != "" {
		lines = readLines(*replay)
	} else {
		// minimised failures from earlier runs always run first
		corpus := filepath.Join(filepath.Dir(os.Args[0]), "..", "..", "corpus", name+".cases")
		if _, err := os.Stat(corpus); err == nil {
			for _, l := range readLines(corpus) {
				lines = append(lines, l)
				stats["corpus"]++
			}
		}
		lines = append(lines, s.Gen(NewRng(*seed), *tier, func(k string) { stats[k]++ })...)
	}
	// strip any id= already present (replay / corpus), then number
	for i, l := range lines {
		fs := strings.Fields(l)
		var keep []string
		for _, f := range fs {
			if !strings.HasPrefix(f, "id=") {
				keep = append(keep, f)
			}
		}
		lines[i] = fmt.Sprintf("id=%d %s", i+1, strings.Join(keep, " "))
	}
	results := make([]string, len(lines))
	par := s.Parallel
	if par < 1 {
		par = 1
	}
	var wg sync.WaitGroup
	var hangs int32
	// journal of started / finished cases: when the library panics on a goroutine of its own the whole process dies, and the
	// orchestrator reads from here which cases were running, to re-run them one by one
	jf, _ := os.Create(filepath.Join(*out, name+".journal"))
	var jmu sync.Mutex
	journal := func(tag string, i int) {
		if jf == nil {
			return
		}
		jmu.Lock()
		fmt.Fprintf(jf, "%s %s\n", tag, lines[i])
		jmu.Unlock()
	}
	sem := make(chan struct{}, par)
	for i := range lines {
		wg.Add(1)
		sem <- struct{}{}
		go func(i int) {
			defer wg.Done()
			defer func() { <-sem }()
			// three cases lost to the watchdog are enough to report; the rest of the run is skipped (the abandoned
			// goroutines of a library that spins would otherwise make every remaining case take the full limit)
			if atomic.LoadInt32(&hangs) >= 3 {
				return
			}
			journal("S", i)
			defer journal("D", i)
			t0 := time.Now()
			// watchdog: a case that does not come back (a call of the library that blocks for ever) becomes the observation
			// hang=watchdog instead of stalling the whole run; its goroutines are abandoned
			ch := make(chan string, 1)
			go func() { ch <- safeRun(s, parseKV(lines[i])) }()
			limit := s.Timeout
			if limit == 0 {
				limit = 90 * time.Second
			}
			var r string
			select {
			case r = <-ch:
			case <-time.After(limit):
				r = "hang=watchdog:" + limit.String()
				atomic.AddInt32(&hangs, 1)
				dumpOnce.Do(func() {
					buf := make([]byte, 1<<20)
					os.Stderr.Write(buf[:runtime.Stack(buf, true)])
				})
			}
			results[i] = r + fmt.Sprintf(" dur=%d", time.Since(t0).Milliseconds())
		}(i)
	}
	wg.Wait()

	cf, err := os.Create(filepath.Join(*out, name+".cases"))
	if err != nil {
		panic(err)
	}
	inf, err := os.Create(filepath.Join(*out, name+".impl"))
	if err != nil {
		panic(err)
	}
	cw := bufio.NewWriterSize(cf, 1<<20)
	iw := bufio.NewWriterSize(inf, 1<<20)
	for i, l := range lines {
		if results[i] == "" {
			stats["skipped-after-hangs"]++
			continue
		}
		cw.WriteString(l)
		cw.WriteByte('\n')
		fmt.Fprintf(iw, "id=%d %s\n", i+1, results[i])
	}
	cw.Flush()
	iw.Flush()
	cf.Close()
	inf.Close()
	sf, _ := os.Create(filepath.Join(*out, name+".stats"))
	keys := make([]string, 0, len(stats))
	for k := range stats {
		keys = append(keys, k)
	}
	sort.Strings(keys)
	for _, k := range keys {
		fmt.Fprintf(sf, "%s %d\n", k, stats[k])
	}
	sf.Close()
}

func readLines(path string) []string {
	f, err := os.Open(path)
	if err != nil {
		panic(err)
	}
	defer f.Close()
	var ls []string
	sc := bufio.NewScanner(f)
	sc.Buffer(make([]byte, 1<<20), 1<<28)
	for sc.Scan() {
		if t := strings.TrimSpace(sc.Text()); t != "" && t[0] != '#' {
			ls = append(ls, t)
		}
	}
	return ls
}
