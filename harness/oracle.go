package main

import (
	"bufio"
	"bytes"
	"compress/flate"
	"encoding/hex"
	"fmt"
	"io"
	"os"
	"strings"
)

// The flate oracle coprocess used by the extracted model (wsmodel spawns `wsharness -oracle`).
// It instantiates the model's Section variables [dz] and [inflate] with Go's compress/flate, run
// by the harness on its OWN reader/writer objects (never the library's).
//
//   D <op>,<op>,...        history of operations on one flate.Writer since NewWriter/Reset
//                          (op = w<hex> | w- | f); reply: chunks handed to the underlying writer by
//                          the LAST op, as <hex>,<hex>,... or "-" when none
//   I <dicthex|-> <inhex|-> reply: <status> <consumed> <outhex|->   status = final|needmore|corrupt

type chunkRec struct{ chunks [][]byte }

func (c *chunkRec) Write(p []byte) (int, error) {
	c.chunks = append(c.chunks, append([]byte(nil), p...))
	return len(p), nil
}

type dzCache struct {
	hist string
	rec  *chunkRec
	fw   *flate.Writer
}

func applyOp(fw *flate.Writer, op string) {
	if op == "f" {
		fw.Flush()
		return
	}
	b := []byte{}
	if op != "w-" {
		b, _ = hex.DecodeString(op[1:])
	}
	fw.Write(b)
}

func (c *dzCache) query(hist string) [][]byte {
	ops := strings.Split(hist, ",")
	last := ops[len(ops)-1]
	prefix := strings.Join(ops[:len(ops)-1], ",")
	if c.fw == nil || c.hist != prefix {
		c.rec = &chunkRec{}
		c.fw, _ = flate.NewWriter(c.rec, flate.BestSpeed)
		for _, op := range ops[:len(ops)-1] {
			applyOp(c.fw, op)
		}
	}
	c.rec.chunks = nil
	applyOp(c.fw, last)
	c.hist = hist
	return c.rec.chunks
}

// InflateAll runs Go's inflater over input with the dictionary; the input reader is a ByteReader so
// that flate never reads ahead and "consumed" is exact.
func InflateAll(dict, in []byte, max int) (status string, consumed int, out []byte) {
	br := bytes.NewReader(in)
	fr := flate.NewReaderDict(br, dict)
	var buf bytes.Buffer
	var err error
	if max > 0 {
		_, err = io.CopyN(&buf, fr, int64(max))
		if err == nil {
			return "more", len(in) - br.Len(), buf.Bytes()
		}
		if err == io.EOF {
			err = nil // CopyN returns EOF when the source ended before max: the stream ended with a final block
			return "final", len(in) - br.Len(), buf.Bytes()
		}
	} else {
		_, err = io.Copy(&buf, fr)
	}
	switch {
	case err == nil:
		return "final", len(in) - br.Len(), buf.Bytes()
	case err == io.ErrUnexpectedEOF:
		return "needmore", len(in) - br.Len(), buf.Bytes()
	default:
		return "corrupt", len(in) - br.Len(), buf.Bytes()
	}
}

func unhexOrEmpty(s string) []byte {
	if s == "-" || s == "" {
		return nil
	}
	b, err := hex.DecodeString(s)
	if err != nil {
		panic(err)
	}
	return b
}

func oracleMain() {
	in := bufio.NewReaderSize(os.Stdin, 1<<20)
	out := bufio.NewWriterSize(os.Stdout, 1<<20)
	cache := &dzCache{}
	for {
		line, err := in.ReadString('\n')
		line = strings.TrimRight(line, "\n")
		if line != "" {
			f := strings.Split(line, " ")
			switch f[0] {
			case "D":
				chunks := cache.query(f[1])
				if len(chunks) == 0 {
					fmt.Fprintln(out, "-")
				} else {
					hs := make([]string, len(chunks))
					for i, c := range chunks {
						hs[i] = hex.EncodeToString(c)
					}
					fmt.Fprintln(out, strings.Join(hs, ","))
				}
			case "I":
				st, c, o := InflateAll(unhexOrEmpty(f[1]), unhexOrEmpty(f[2]), 0)
				fmt.Fprintf(out, "%s %d %s\n", st, c, Hex(o))
			default:
				fmt.Fprintln(out, "ERR")
			}
			out.Flush()
		}
		if err != nil {
			return
		}
	}
}
