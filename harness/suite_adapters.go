package main

import (
	"bytes"
	"context"
	"encoding/json"
	"errors"
	"fmt"
	"io"
	"net"
	"os"
	"runtime"
	"strconv"
	"strings"
	"sync"
	"sync/atomic"
	"time"

	"nhooyr.io/websocket"
	"nhooyr.io/websocket/wsjson"
)

// suite netconn (C18): the net.Conn adapter over two library endpoints / a raw peer.
//   kind=stream typ=1|2 writes=<n,n,...> reads=<n,n,...> cmode= smode=        byte stream through NetConn on both ends
//   kind=close  code=<n> typ=                                                 the peer closes with that status: Read result
//   kind=wrongtype typ=                                                       a message of the other type arrives
//   kind=deadline side=read|write when=idle|active                            deadline in the past/near future, idle or during a call
// suite wsjson (C19): values through wsjson.Write / wsjson.Read over two library endpoints; invalid documents from a raw peer.

func init() {
	suites["netconn"] = &Suite{Gen: genNetConn, Run: runNetConn, Parallel: 8}
	suites["wsjson"] = &Suite{Gen: genWsJson, Run: runWsJson, Parallel: 8}
}

func genNetConn(r *Rng, tier string, stat func(string)) []string {
	var out []string
	n := 120
	if tier == "thorough" {
		n = 2500
	}
	sizes := []int{0, 1, 2, 7, 100, 125, 126, 4095, 4096, 4097, 65535, 65536, 70000}
	for i := 0; i < n; i++ {
		nw := 1 + r.Intn(6)
		var ws, rs []string
		for k := 0; k < nw; k++ {
			s := sizes[r.Intn(len(sizes))]
			if r.Intn(2) == 0 {
				s = r.Intn(300)
			}
			ws = append(ws, strconv.Itoa(s))
		}
		nr := 1 + r.Intn(4)
		for k := 0; k < nr; k++ {
			rs = append(rs, strconv.Itoa(r.Pick([]int{1, 3, 7, 100, 512, 4096, 65536, 100000})))
		}
		out = append(out, fmt.Sprintf("kind=stream typ=%d writes=%s reads=%s cmode=%d smode=%d", 1+r.Intn(2), strings.Join(ws, ","), strings.Join(rs, ","), r.Intn(3), r.Intn(3)))
		stat("stream")
	}
	for _, code := range []int{1000, 1001, 1002, 1003, 1005, 1008, 1011, 3000, 4000, 4999} { // 1005: a Close frame without payload
		for typ := 1; typ <= 2; typ++ {
			out = append(out, fmt.Sprintf("kind=close code=%d typ=%d", code, typ))
			stat("close")
		}
	}
	for typ := 1; typ <= 2; typ++ {
		out = append(out, fmt.Sprintf("kind=wrongtype typ=%d", typ))
		stat("wrongtype")
		// the connection ends WITHOUT a Close frame (transport dropped / failed, a protocol violation by the peer): the reader must
		// see an error that is not io.EOF — only a normal / going-away Close frame is a clean end of stream
		for _, how := range []string{"eof", "fail", "badframe"} {
			out = append(out, fmt.Sprintf("kind=drop typ=%d how=%s", typ, how))
			stat("drop")
		}
	}
	for _, side := range []string{"read", "write"} {
		for _, when := range []string{"idle-past", "idle-future", "active", "active-setpast", "active-setfuture", "idle-midmessage-past", "idle-midmessage-future", "idle-cleared"} {
			for k := 0; k < 2; k++ {
				if k == 1 {
					out = append(out, fmt.Sprintf("kind=deadline side=%s when=%s via=both", side, when))
				} else {
					out = append(out, fmt.Sprintf("kind=deadline side=%s when=%s", side, when))
				}
				stat("deadline")
			}
		}
	}
	return out
}

func isDeadline(err error) bool { return errors.Is(err, context.DeadlineExceeded) }

func ncErr(err error) string {
	switch {
	case err == nil:
		return "nil"
	case err == io.EOF:
		return "eof"
	case isDeadline(err):
		return "deadline"
	}
	var ce websocket.CloseError
	if errors.As(err, &ce) {
		return fmt.Sprintf("close:%d", ce.Code)
	}
	if strings.Contains(err.Error(), "unexpected frame type read") {
		return "wrongtype"
	}
	return "err"
}

// ghostConn counts bytes that a FAILING call of the adapter reports: in this suite every failure happens with nothing
// transferred by that call, so a failing Read must report 0 bytes (an io.Reader's caller consumes p[:n] before it looks
// at the error) and a failing Write must report 0 bytes written.
type ghost struct{ r, w int64 }

type ghostConn struct {
	net.Conn
	g *ghost
}

func (c ghostConn) Read(p []byte) (int, error) {
	n, err := c.Conn.Read(p)
	if err != nil && n > 0 {
		atomic.AddInt64(&c.g.r, int64(n))
	}
	return n, err
}

func (c ghostConn) Write(p []byte) (int, error) {
	n, err := c.Conn.Write(p)
	if err != nil && n > 0 {
		atomic.AddInt64(&c.g.w, int64(n))
	}
	return n, err
}

func runNetConn(kv map[string]string) string {
	g := &ghost{}
	r := runNetConnG(kv, g)
	return r + fmt.Sprintf(" ghost=%d:%d", atomic.LoadInt64(&g.r), atomic.LoadInt64(&g.w))
}

func runNetConnG(kv map[string]string, g *ghost) string {
	ctx, cancel := context.WithTimeout(context.Background(), 30*time.Second)
	defer cancel()
	typ, _ := strconv.Atoi(kv["typ"])
	if typ == 0 {
		typ = 2
	}
	switch kv["kind"] {
	case "stream":
		cm, _ := strconv.Atoi(kv["cmode"])
		sm, _ := strconv.Atoi(kv["smode"])
		c, s, _, err := newPair(websocket.CompressionMode(cm), websocket.CompressionMode(sm), 0, 0)
		if err != nil {
			return "dialerr=" + errClass(err)
		}
		a := net.Conn(ghostConn{websocket.NetConn(ctx, c, websocket.MessageType(typ)), g})
		b := net.Conn(ghostConn{websocket.NetConn(ctx, s, websocket.MessageType(typ)), g})
		var data []byte
		var werr error
		var wg sync.WaitGroup
		wg.Add(1)
		go func() {
			defer wg.Done()
			for i, w := range strings.Split(kv["writes"], ",") {
				n, _ := strconv.Atoi(w)
				p := GenBytes("rand", n, i+1)
				data = append(data, p...)
				k, e := a.Write(p)
				if e != nil || k != n {
					werr = fmt.Errorf("write %d: n=%d err=%v", i, k, e)
					return
				}
			}
			a.Close()
		}()
		var got []byte
		var rerr error
		zero := 0
		rs := strings.Split(kv["reads"], ",")
		for i := 0; ; i++ {
			n, _ := strconv.Atoi(rs[i%len(rs)])
			buf := make([]byte, n)
			k, e := b.Read(buf)
			got = append(got, buf[:k]...)
			if e != nil {
				rerr = e
				break
			}
			if k == 0 {
				zero++
			}
		}
		wg.Wait()
		b.Close()
		// a second Read after EOF must still be EOF
		b.Read(make([]byte, 8)) // bytes reported here would be counted as ghost bytes
		return fmt.Sprintf("werr=%v end=%s n=%d fnv=%s wn=%d wfnv=%s zeroreads=%d", werr == nil, ncErr(rerr), len(got), Fnv(got), len(data), Fnv(data), zero)
	case "drop":
		cfg := EndpointCfg{Role: "client"}
		c, raw, err := newLibConn(cfg)
		if err != nil {
			return "dialerr=" + errClass(err)
		}
		peer := startAutoPeer(raw, cfg.Role, true)
		nc := net.Conn(ghostConn{websocket.NetConn(ctx, c, websocket.MessageType(typ)), g})
		peer.send(rawFrame{Fin: true, Opcode: byte(typ), Payload: []byte("abc")})
		switch kv["how"] {
		case "eof":
			raw.End(io.EOF)
		case "fail":
			raw.End(errPipeFail)
		default:
			peer.send(rawFrame{Fin: true, Opcode: 3, Payload: []byte("x")}) // reserved opcode
		}
		buf := make([]byte, 16)
		k, e1 := nc.Read(buf)
		_, e2 := nc.Read(buf)
		_, e3 := nc.Read(buf)
		c.CloseNow()
		<-peer.done
		return fmt.Sprintf("first=%d:%s second=%s third=%s", k, ncErr(e1), ncErr(e2), ncErr(e3))
	case "close", "wrongtype":
		cfg := EndpointCfg{Role: "client"}
		c, raw, err := newLibConn(cfg)
		if err != nil {
			return "dialerr=" + errClass(err)
		}
		peer := startAutoPeer(raw, cfg.Role, true)
		nc := net.Conn(ghostConn{websocket.NetConn(ctx, c, websocket.MessageType(typ)), g})
		if kv["kind"] == "close" {
			code, _ := strconv.Atoi(kv["code"])
			peer.send(rawFrame{Fin: true, Opcode: byte(typ), Payload: []byte("abc")})
			if code == 1005 {
				peer.send(rawFrame{Fin: true, Opcode: 8}) // no status on the wire: CloseStatus reports StatusNoStatusRcvd
			} else {
				peer.send(rawFrame{Fin: true, Opcode: 8, Payload: []byte{byte(code >> 8), byte(code), 'x'}})
			}
			buf := make([]byte, 16)
			k, e1 := nc.Read(buf)
			_, e2 := nc.Read(buf)
			_, e3 := nc.Read(buf)
			c.CloseNow()
			<-peer.done
			return fmt.Sprintf("first=%d:%s second=%s third=%s", k, ncErr(e1), ncErr(e2), ncErr(e3))
		}
		other := 3 - typ
		peer.send(rawFrame{Fin: true, Opcode: byte(other), Payload: []byte("abc")})
		_, e1 := nc.Read(make([]byte, 16))
		err2 := c.Write(ctx, websocket.MessageText, []byte("x"))
		c.CloseNow()
		<-peer.done
		fs, _ := parseRawFrames(peer.Recorded())
		closeCode := -1
		for _, f := range fs {
			if f.Opcode == 8 && len(f.Payload) >= 2 {
				closeCode = int(f.Payload[0])<<8 | int(f.Payload[1])
			}
		}
		return fmt.Sprintf("read=%s closecode=%d laterwrite=%v", ncErr(e1), closeCode, err2 != nil)
	case "deadline":
		c, s, _, err := newPair(0, 0, 0, 0)
		if err != nil {
			return "dialerr=" + errClass(err)
		}
		a := net.Conn(ghostConn{websocket.NetConn(ctx, c, websocket.MessageBinary), g})
		// the other end only drains in the background; when the case tears the connection down its last Read may legitimately
		// return bytes together with the error, so it is not counted
		b := websocket.NetConn(ctx, s, websocket.MessageBinary)
		defer c.CloseNow()
		defer s.CloseNow()
		go io.Copy(io.Discard, b) // the other end keeps reading so that writes complete
		read := kv["side"] == "read"
		set := func(t time.Time) {
			if kv["via"] == "both" {
				a.SetDeadline(t) // sets the read and the write deadline
			} else if read {
				a.SetReadDeadline(t)
			} else {
				a.SetWriteDeadline(t)
			}
		}
		call := func() error {
			if read {
				_, e := a.Read(make([]byte, 4))
				return e
			}
			_, e := a.Write([]byte("data"))
			return e
		}
		switch kv["when"] {
		case "idle-past", "idle-future":
			if kv["when"] == "idle-past" {
				set(time.Now().Add(-time.Second))
			} else {
				set(time.Now().Add(20 * time.Millisecond))
			}
			time.Sleep(80 * time.Millisecond) // the timer fires while no call is active
			e1 := call()
			e2 := call()
			set(time.Time{}) // reset: the connection must be usable again
			var e3 error
			if read {
				go func() { time.Sleep(10 * time.Millisecond); s.Write(ctx, websocket.MessageBinary, []byte("pong")) }()
				_, e3 = a.Read(make([]byte, 4))
			} else {
				_, e3 = a.Write([]byte("data"))
			}
			return fmt.Sprintf("first=%s second=%s afterreset=%s", ncErr(e1), ncErr(e2), ncErr(e3))
		case "idle-cleared":
			// a deadline that is cleared before it passes must not fire later (its timer is stopped)
			set(time.Now().Add(60 * time.Millisecond))
			time.Sleep(5 * time.Millisecond)
			set(time.Time{})
			time.Sleep(150 * time.Millisecond)
			feed := func() {
				if read {
					go func() { time.Sleep(5 * time.Millisecond); s.Write(ctx, websocket.MessageBinary, []byte("pong")) }()
				}
			}
			feed()
			e1 := call()
			feed()
			e2 := call()
			return fmt.Sprintf("first=%s second=%s", ncErr(e1), ncErr(e2))
		case "idle-midmessage-past", "idle-midmessage-future":
			// the deadline passes while no call is active but a message is only partly read (read side) / the connection has
			// been written to (write side): the next call must fail with the deadline error all the same
			if read {
				if err := s.Write(ctx, websocket.MessageBinary, make([]byte, 200)); err != nil {
					return "setup=" + errClass(err)
				}
				if _, err := a.Read(make([]byte, 50)); err != nil { // a prefix: the message stays open in the adapter
					return "setup=" + errClass(err)
				}
			} else {
				if _, err := a.Write([]byte("first")); err != nil {
					return "setup=" + errClass(err)
				}
			}
			if kv["when"] == "idle-midmessage-past" {
				set(time.Now().Add(-time.Second))
			} else {
				set(time.Now().Add(20 * time.Millisecond))
			}
			time.Sleep(80 * time.Millisecond)
			e1 := call()
			e2 := call()
			set(time.Time{})
			var e3 error
			if read {
				_, e3 = a.Read(make([]byte, 50)) // the rest of the message is still there
			} else {
				_, e3 = a.Write([]byte("data"))
			}
			return fmt.Sprintf("first=%s second=%s afterreset=%s", ncErr(e1), ncErr(e2), ncErr(e3))
		case "active-setpast", "active-setfuture":
			// the deadline is set by another goroutine WHILE the call is blocked (in the past: it fires at once; or shortly ahead)
			if !read {
				stallPair(c)
			}
			res := make(chan error, 1)
			go func() {
				if read {
					_, e := a.Read(make([]byte, 4))
					res <- e
					return
				}
				var e error
				big := make([]byte, 1<<20)
				for i := 0; i < 200 && e == nil; i++ {
					_, e = a.Write(big)
				}
				res <- e
			}()
			time.Sleep(40 * time.Millisecond)
			if kv["when"] == "active-setpast" {
				set(time.Now().Add(-time.Second))
			} else {
				set(time.Now().Add(30 * time.Millisecond))
			}
			var e1 error
			returned := true
			select {
			case e1 = <-res:
			case <-time.After(3 * time.Second):
				returned = false
			}
			// the library closes the connection from its timeout goroutine: shortly afterwards, not at once
			var e2 error
			for i := 0; i < 100 && e2 == nil; i++ {
				time.Sleep(30 * time.Millisecond)
				e2 = c.Write(ctx, websocket.MessageBinary, []byte("x"))
			}
			return fmt.Sprintf("call=%v connclosed=%v eof=%v", returned && e1 != nil, e2 != nil, e1 == io.EOF)
		case "active":
			// the deadline fires during an active call: that call fails and the connection is closed
			set(time.Now().Add(60 * time.Millisecond))
			var e1 error
			if read {
				_, e1 = a.Read(make([]byte, 4)) // nothing arrives: blocked until the deadline
			} else {
				// make the write block: the peer's transport stops draining
				e1 = nil
				big := make([]byte, 1<<20)
				for i := 0; i < 200 && e1 == nil; i++ {
					_, e1 = a.Write(big)
					if i == 0 {
						// stall the transport after the first write so that a later one blocks
						stallPair(c)
					}
				}
			}
			// the library closes the connection from its timeout goroutine: shortly afterwards, not at once
			var e2 error
			for i := 0; i < 100 && e2 == nil; i++ {
				time.Sleep(30 * time.Millisecond)
				e2 = c.Write(ctx, websocket.MessageBinary, []byte("x"))
			}
			return fmt.Sprintf("call=%v connclosed=%v eof=%v", e1 != nil, e2 != nil, e1 == io.EOF)
		}
	}
	return "unknown-kind"
}

var wsjsonSerial sync.Mutex

// stallPair makes the client's outgoing half block (zero receive window).
var pairConns sync.Map // *websocket.Conn -> *tapConn

func stallPair(c *websocket.Conn) {
	if t, ok := pairConns.Load(c); ok {
		h := t.(*tapConn).out
		h.mu.Lock()
		h.stall = true
		h.mu.Unlock()
	}
}

// ---------------------------------------------------------------------------------------------

type jsonVal struct {
	A int               `json:"a"`
	S string            `json:"s"`
	L []interface{}     `json:"l"`
	M map[string]string `json:"m"`
	P *float64          `json:"p"`
}

func genJSON(r *Rng, depth int) interface{} {
	switch k := r.Intn(8); {
	case k == 0:
		return nil
	case k == 1:
		return r.Bool()
	case k == 2:
		return float64(r.Intn(1000000)) / 8
	case k == 3:
		return r.PickS([]string{"", "héllo wörld ✓", "line\nbreak \"quoted\" \\ back", "\u0000\u001f", strings.Repeat("x", 300), "<>& "})
	case k < 6 && depth > 0:
		n := r.Intn(4)
		l := make([]interface{}, 0, n)
		for i := 0; i < n; i++ {
			l = append(l, genJSON(r, depth-1))
		}
		return l
	case depth > 0:
		m := map[string]interface{}{}
		for i := 0; i < r.Intn(4); i++ {
			m[fmt.Sprintf("k%d", r.Intn(10))] = genJSON(r, depth-1)
		}
		return m
	}
	return float64(r.Intn(100))
}

func genWsJson(r *Rng, tier string, stat func(string)) []string {
	var out []string
	n := 150
	if tier == "thorough" {
		n = 3000
	}
	for i := 0; i < n; i++ {
		nv := 1 + r.Intn(5)
		var docs []string
		for k := 0; k < nv; k++ {
			b, _ := json.Marshal(genJSON(r, 3))
			docs = append(docs, Hex(b))
		}
		out = append(out, fmt.Sprintf("kind=values target=%s cmode=%d smode=%d docs=%s", r.PickS([]string{"iface", "raw", "iface"}), r.Intn(3), r.Intn(3), strings.Join(docs, ",")))
		stat("values")
	}
	bigs := 3
	for i := 0; i < bigs; i++ { // beyond the default read limit, with the limit raised
		b, _ := json.Marshal(map[string]string{"big": strings.Repeat("y", 40000+r.Intn(40000))})
		out = append(out, fmt.Sprintf("kind=values target=iface cmode=%d smode=%d limit=-1 docs=%s", r.Intn(3), r.Intn(3), Hex(b)))
		stat("big")
	}
	for _, bad := range []string{"{", "[1,2", "{\"a\":}", "nul", "\"unterminated", "", "{} {}", "[1] x", "\xff\xfe"} {
		out = append(out, fmt.Sprintf("kind=invalid doc=%s", hx(bad)))
		// after a rejected document two reads overlap on other connections: the pooled buffer of the failed read must not end up
		// with both of them
		out = append(out, fmt.Sprintf("kind=overlap doc=%s", hx(bad)))
		stat("overlap-after-invalid")
		stat("invalid")
	}
	out = append(out, "kind=rawwrite")
	out = append(out, "kind=struct")
	out = append(out, "kind=bytes")
	return out
}

func canon(v interface{}) string {
	b, _ := json.Marshal(v)
	return string(b)
}

func runWsJson(kv map[string]string) string {
	ctx, cancel := context.WithTimeout(context.Background(), 30*time.Second)
	defer cancel()
	switch kv["kind"] {
	case "values":
		cm, _ := strconv.Atoi(kv["cmode"])
		sm, _ := strconv.Atoi(kv["smode"])
		c, s, rt, err := newPair(websocket.CompressionMode(cm), websocket.CompressionMode(sm), 0, 0)
		if err != nil {
			return "dialerr=" + errClass(err)
		}
		defer c.CloseNow()
		defer s.CloseNow()
		if kv["limit"] == "-1" {
			s.SetReadLimit(-1)
		}
		docs := strings.Split(kv["docs"], ",")
		var vals []interface{}
		for _, d := range docs {
			var v interface{}
			json.Unmarshal(Payload(d), &v)
			vals = append(vals, v)
		}
		werr := make(chan error, 1)
		go func() {
			for _, v := range vals {
				if e := wsjson.Write(ctx, c, v); e != nil {
					werr <- e
					return
				}
			}
			werr <- nil
		}()
		okAll := true
		var decoded []string
		var raws []json.RawMessage
		var ifaces []interface{}
		for range vals {
			if kv["target"] == "raw" {
				var rm json.RawMessage
				if e := wsjson.Read(ctx, s, &rm); e != nil {
					return "readerr=" + ncErr(e)
				}
				raws = append(raws, rm)
			} else {
				var v interface{}
				if e := wsjson.Read(ctx, s, &v); e != nil {
					return "readerr=" + ncErr(e)
				}
				ifaces = append(ifaces, v)
			}
		}
		if e := <-werr; e != nil {
			return "writeerr=" + ncErr(e)
		}
		// previously decoded results are re-compared after all later reads (pooled buffers must not alias them)
		for i, v := range vals {
			var got string
			if kv["target"] == "raw" {
				var x interface{}
				if json.Unmarshal(raws[i], &x) != nil {
					okAll = false
				}
				got = canon(x)
			} else {
				got = canon(ifaces[i])
			}
			decoded = append(decoded, Fnv([]byte(got)))
			if got != canon(v) {
				okAll = false
			}
		}
		// the wire: exactly one text message per value, payload = encoding + "\n"
		rt.cliConn.mu.Lock()
		wire := append([]byte(nil), rt.cliConn.log...)
		rt.cliConn.mu.Unlock()
		fs, _ := parseRawFrames(wire)
		texts, others := 0, 0
		for _, f := range fs {
			if f.Opcode == 1 {
				texts++
			} else if f.Opcode == 2 {
				others++
			}
		}
		return fmt.Sprintf("equal=%v n=%d textmsgs=%d binarymsgs=%d", okAll, len(vals), texts, others)
	case "invalid":
		cfg := EndpointCfg{Role: "server"}
		c, raw, err := newLibConn(cfg)
		if err != nil {
			return "dialerr=" + errClass(err)
		}
		peer := startAutoPeer(raw, cfg.Role, true)
		peer.send(rawFrame{Fin: true, Opcode: 1, Payload: Payload(kv["doc"])})
		var v interface{}
		e := wsjson.Read(ctx, c, &v)
		e2 := c.Write(ctx, websocket.MessageText, []byte("x"))
		c.CloseNow()
		<-peer.done
		fs, _ := parseRawFrames(peer.Recorded())
		closeCode := -1
		for _, f := range fs {
			if f.Opcode == 8 && len(f.Payload) >= 2 && closeCode < 0 {
				closeCode = int(f.Payload[0])<<8 | int(f.Payload[1])
			}
		}
		return fmt.Sprintf("readfailed=%v closecode=%d laterwritefails=%v", e != nil, closeCode, e2 != nil)
	case "overlap":
		// single P: sync.Pool hands a returned buffer straight to the next Get, which makes buffer reuse reproducible
		wsjsonSerial.Lock()
		defer wsjsonSerial.Unlock()
		old := runtime.GOMAXPROCS(1)
		defer runtime.GOMAXPROCS(old)
		mk := func() (*websocket.Conn, *autoPeer, error) {
			c, raw, err := newLibConn(EndpointCfg{Role: "server"})
			if err != nil {
				return nil, nil, err
			}
			return c, startAutoPeer(raw, "server", true), nil
		}
		x, px, err := mk()
		if err != nil {
			return "dialerr=" + errClass(err)
		}
		px.send(rawFrame{Fin: true, Opcode: 1, Payload: Payload(kv["doc"])})
		var junk interface{}
		e0 := wsjson.Read(ctx, x, &junk) // the rejected document: error path of wsjson.Read
		x.CloseNow()
		a, pa, err := mk()
		if err != nil {
			return "dialerr=" + errClass(err)
		}
		b, pb, err := mk()
		if err != nil {
			return "dialerr=" + errClass(err)
		}
		docA, docB := `{"who":"A","pad":"aaaaaaaaaaaaaaaaaaaaaaaaaaaaaaaaaaaaaaaa"}`, `{"who":"B","pad":"bbbbbbbbbbbbbbbbbbbbbbbbbbbbbbbbbbbbbbbbbbbbbbbbbbbbbbbbbbbb"}`
		pa.send(rawFrame{Fin: false, Opcode: 1, Payload: []byte(docA[:20])}) // A is in the middle of its message ...
		var va, vb map[string]string
		aerr := make(chan error, 1)
		go func() { aerr <- wsjson.Read(ctx, a, &va) }()
		time.Sleep(20 * time.Millisecond)
		pb.send(rawFrame{Fin: true, Opcode: 1, Payload: []byte(docB)}) // ... while B reads a whole one
		eb := wsjson.Read(ctx, b, &vb)
		pa.send(rawFrame{Fin: true, Opcode: 0, Payload: []byte(docA[20:])})
		ea := <-aerr
		a.CloseNow()
		b.CloseNow()
		<-px.done
		<-pa.done
		<-pb.done
		return fmt.Sprintf("readfailed=%v aok=%v bok=%v", e0 != nil, ea == nil && va["who"] == "A" && len(va["pad"]) == 40, eb == nil && vb["who"] == "B" && len(vb["pad"]) == 60)
	case "rawwrite":
		// values whose dynamic type is json.RawMessage go through the encoder like everything else: a nil one is the JSON value
		// null, a malformed one is an encoding error (nothing may be sent), a valid one arrives as an equivalent document
		c, s, _, err := newPair(0, 0, 0, 0)
		if err != nil {
			return "dialerr=" + errClass(err)
		}
		defer c.CloseNow()
		defer s.CloseNow()
		type rd struct {
			typ websocket.MessageType
			b   []byte
			err error
		}
		got := make(chan rd, 8)
		go func() {
			for {
				typ, b, err := s.Read(ctx)
				got <- rd{typ, b, err}
				if err != nil {
					return
				}
			}
		}()
		e1 := wsjson.Write(ctx, c, json.RawMessage(nil))
		e2 := wsjson.Write(ctx, c, json.RawMessage(`{"a":`))
		e3 := wsjson.Write(ctx, c, json.RawMessage(`{"a" : [1, 2]}`))
		e4 := wsjson.Write(ctx, c, map[string]json.RawMessage{"k": nil})
		var docs []string
		for i := 0; i < 3; i++ {
			select {
			case r := <-got:
				if r.err != nil {
					docs = append(docs, "readerr")
				} else {
					var v interface{}
					ok := r.typ == websocket.MessageText && json.Unmarshal(r.b, &v) == nil
					docs = append(docs, fmt.Sprintf("%v:%s", ok, canon(v)))
				}
			case <-time.After(3 * time.Second):
				docs = append(docs, "missing")
			}
		}
		extra := 0
		select {
		case r := <-got:
			if r.err == nil {
				extra = 1
			}
		case <-time.After(100 * time.Millisecond):
		}
		return fmt.Sprintf("nilraw=%v badraw=%v goodraw=%v nested=%v docs=%s extra=%d", e1 == nil, e2 != nil, e3 == nil, e4 == nil, hx(strings.Join(docs, "|")), extra)
	case "struct", "bytes":
		c, s, _, err := newPair(0, 0, 0, 0)
		if err != nil {
			return "dialerr=" + errClass(err)
		}
		defer c.CloseNow()
		defer s.CloseNow()
		if kv["kind"] == "struct" {
			f := 2.5
			in := jsonVal{A: 7, S: "ü", L: []interface{}{1.0, "a", nil}, M: map[string]string{"k": "v"}, P: &f}
			go wsjson.Write(ctx, c, in)
			var out jsonVal
			if e := wsjson.Read(ctx, s, &out); e != nil {
				return "readerr=" + ncErr(e)
			}
			return fmt.Sprintf("equal=%v", canon(in) == canon(out))
		}
		in := []byte{0, 1, 2, 250, 251, 252}
		go func() { wsjson.Write(ctx, c, in); wsjson.Write(ctx, c, []byte("second")) }()
		var o1, o2 []byte
		if e := wsjson.Read(ctx, s, &o1); e != nil {
			return "readerr=" + ncErr(e)
		}
		if e := wsjson.Read(ctx, s, &o2); e != nil {
			return "readerr=" + ncErr(e)
		}
		return fmt.Sprintf("equal=%v", bytes.Equal(o1, in) && string(o2) == "second")
	}
	return "unknown-kind"
}

var _ = os.Stderr
var _ net.Conn
