package main

import (
	"encoding/binary"
	"encoding/hex"
	"fmt"
	"strconv"
	"strings"
	"unsafe"

	"nhooyr.io/websocket"
)

// suite mask (C17): real maskGo / maskAsm on buffers placed at a chosen alignment inside a
// 64-byte aligned arena with 64 guard bytes on each side; optionally masked in consecutive pieces.
//   fn=go|asm|mask (mask = the dispatcher the connection code calls) key=<8 hex, little-endian key bytes> data=<payload> align=<0..63> split=<a,b,..|->

func init() {
	suites["mask"] = &Suite{Gen: genMask, Run: runMask}
}

func genMask(r *Rng, tier string, stat func(string)) []string {
	var out []string
	keyOf := func() string {
		// four distinct bytes so that every rotation is distinguishable
		for {
			var k [4]byte
			binary.LittleEndian.PutUint32(k[:], uint32(r.U64()))
			if k[0] != k[1] && k[0] != k[2] && k[0] != k[3] && k[1] != k[2] && k[1] != k[3] && k[2] != k[3] {
				return hex.EncodeToString(k[:])
			}
		}
	}
	add := func(fn string, n, align int, split string) {
		kind := "rand"
		if r.Intn(8) == 0 {
			kind = "const"
		}
		d := "-"
		if n > 0 {
			d = fmt.Sprintf("gen:%s:%d:%d", kind, n, r.Intn(1<<30))
		}
		out = append(out, fmt.Sprintf("fn=%s key=%s data=%s align=%d split=%s", fn, keyOf(), d, align, split))
		stat("fn:" + fn)
		switch {
		case n < 16:
			stat("len:<16")
		case n < 64:
			stat("len:16-63")
		case n <= 128:
			stat("len:64-128")
		case n < 1024:
			stat("len:129-1023")
		default:
			stat("len:>=1024")
		}
		if split != "-" {
			stat("split:" + strconv.Itoa(strings.Count(split, ",")+1))
		}
	}
	fns := []string{"go", "asm"}
	aligns := []int{0, 1, 7, 8, 31, 32, 33, 63}
	maxLenAllAligns := 140
	step := 97
	if tier == "thorough" {
		maxLenAllAligns = 4200
		step = 1
	}
	for _, fn := range fns {
		// every alignment x small lengths (covers every unrolled-loop threshold and the asm dispatch)
		for n := 0; n <= maxLenAllAligns; n++ {
			for a := 0; a < 64; a++ {
				if tier != "thorough" && n > 70 && a%5 != n%5 {
					continue
				}
				add(fn, n, a, "-")
			}
		}
		// lengths up to 4200 at the chosen alignments
		for n := maxLenAllAligns + 1; n <= 4200; n += step {
			add(fn, n, r.Pick(aligns), "-")
		}
		for _, n := range []int{255, 256, 257, 1023, 1024, 1025, 4095, 4096, 4097, 4199, 4200} {
			add(fn, n, r.Pick(aligns), "-")
		}
	}
	// every 2-piece split for lengths <= 40, sampled 2- and 3-piece splits above
	maxSplit := 40
	if tier == "thorough" {
		maxSplit = 160
	}
	for n := 1; n <= maxSplit; n++ {
		for i := 0; i <= n; i++ {
			add("go", n, r.Intn(64), fmt.Sprintf("%d,%d", i, n-i))
			// the dispatcher the connection code calls (mask_asm.go / mask_go.go), empty pieces included
			add("mask", n, r.Intn(64), fmt.Sprintf("%d,%d", i, n-i))
		}
	}
	for n := 0; n <= 140; n++ {
		add("mask", n, r.Intn(64), "-")
	}
	for c := 0; c < 120; c++ {
		// pieces with empty ones in the middle, as a zero-length Read in the middle of a frame produces
		n := 1 + r.Intn(300)
		i := r.Intn(n + 1)
		add("mask", n, r.Intn(64), fmt.Sprintf("%d,0,%d,0", i, n-i))
	}
	ns := 300
	if tier == "thorough" {
		ns = 20000
	}
	for c := 0; c < ns; c++ {
		n := 1 + r.Intn(600)
		i := r.Intn(n + 1)
		j := i + r.Intn(n-i+1)
		add([]string{"go", "asm", "mask"}[r.Intn(3)], n, r.Intn(64), fmt.Sprintf("%d,%d,%d", i, j-i, n-j))
	}
	return out
}

var maskArena = make([]byte, 8192+256)

func runMask(kv map[string]string) string {
	kb, _ := hex.DecodeString(kv["key"])
	key := binary.LittleEndian.Uint32(kb)
	data := Payload(kv["data"])
	align, _ := strconv.Atoi(kv["align"])
	// 64-byte aligned base inside the arena
	base := 0
	for uintptr(unsafe.Pointer(&maskArena[base]))%64 != 0 {
		base++
	}
	start := base + 64 + align
	for i := range maskArena {
		maskArena[i] = 0xA5
	}
	buf := maskArena[start : start+len(data) : start+len(data)]
	copy(buf, data)
	var lens []int
	if kv["split"] == "-" || kv["split"] == "" {
		lens = []int{len(data)}
	} else {
		for _, s := range strings.Split(kv["split"], ",") {
			n, _ := strconv.Atoi(s)
			lens = append(lens, n)
		}
	}
	pos := 0
	for _, l := range lens {
		p := buf[pos : pos+l]
		if kv["fn"] == "asm" {
			key = websocket.VerifMaskAsm(p, key)
		} else if kv["fn"] == "mask" {
			key = websocket.VerifMask(p, key)
		} else {
			key = websocket.VerifMaskGo(p, key)
		}
		pos += l
	}
	guard := "ok"
	for i := range maskArena {
		if (i < start || i >= start+len(data)) && maskArena[i] != 0xA5 {
			guard = fmt.Sprintf("touched@%d", i-start)
			break
		}
	}
	var ko [4]byte
	binary.LittleEndian.PutUint32(ko[:], key)
	return fmt.Sprintf("out=%s key=%s guard=%s", Fnv(buf), hex.EncodeToString(ko[:]), guard)
}
